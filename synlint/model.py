"""Program model and callee resolution for the SynRBL package.

The model is built from the working tree on every run.  It knows modules,
imports (absolute, relative, aliases, re-exports through ``__init__``),
classes (bases, methods, class attributes, attributes assigned in
``__init__``), functions (incl. nested ones) and offers the callee
resolution a type checker would give for the idioms this code base uses
(DESIGN.md 1.2).
"""

from __future__ import annotations

import ast
import os
from dataclasses import dataclass, field
from typing import Dict, Iterator, List, Optional, Tuple


class AnalysisError(Exception):
    """An anchor vanished or the engine cannot analyse the tree (exit 2)."""


@dataclass
class Func:
    qualname: str
    node: ast.AST  # FunctionDef | AsyncFunctionDef | Lambda
    module: "Module"
    cls: Optional["Class"] = None
    parent: Optional["Func"] = None
    nested: Dict[str, "Func"] = field(default_factory=dict)

    @property
    def name(self) -> str:
        return self.qualname.rsplit(".", 1)[-1]

    @property
    def decorators(self) -> List[str]:
        out = []
        for d in getattr(self.node, "decorator_list", []):
            out.append(dotted(d) or "")
        return out

    @property
    def is_static(self) -> bool:
        return "staticmethod" in self.decorators

    @property
    def is_classmethod(self) -> bool:
        return "classmethod" in self.decorators

    @property
    def params(self) -> List[str]:
        a = self.node.args
        names = [x.arg for x in a.posonlyargs + a.args]
        return names

    @property
    def kwonly(self) -> List[str]:
        return [x.arg for x in self.node.args.kwonlyargs]

    def param_defaults(self) -> Dict[str, ast.AST]:
        a = self.node.args
        pos = a.posonlyargs + a.args
        out = {}
        for p, d in zip(pos[len(pos) - len(a.defaults):], a.defaults):
            out[p.arg] = d
        for p, d in zip(a.kwonlyargs, a.kw_defaults):
            if d is not None:
                out[p.arg] = d
        return out

    @property
    def file(self) -> str:
        return self.module.relpath

    def loc(self, node: Optional[ast.AST] = None) -> str:
        n = node if node is not None else self.node
        return "%s:%d" % (getattr(n, "_inl_file", None) or self.module.relpath, getattr(n, "lineno", 0))


@dataclass
class Class:
    qualname: str
    node: ast.ClassDef
    module: "Module"
    methods: Dict[str, Func] = field(default_factory=dict)
    class_attrs: Dict[str, ast.AST] = field(default_factory=dict)
    bases: List[str] = field(default_factory=list)  # resolved qualnames / dotted

    @property
    def name(self) -> str:
        return self.qualname.rsplit(".", 1)[-1]

    def mangle(self, attr: str) -> str:
        """Private-name mangling as the compiler applies it inside the class."""
        if attr.startswith("__") and not attr.endswith("__"):
            return "_%s%s" % (self.name.lstrip("_"), attr)
        return attr


@dataclass
class Module:
    name: str
    path: str
    relpath: str
    src: str
    tree: ast.Module
    imports: Dict[str, str] = field(default_factory=dict)  # local -> dotted target
    functions: Dict[str, Func] = field(default_factory=dict)
    classes: Dict[str, Class] = field(default_factory=dict)
    assigns: Dict[str, ast.AST] = field(default_factory=dict)
    is_pkg: bool = False


def dotted(node: ast.AST) -> Optional[str]:
    """``a.b.c`` for Name/Attribute chains, else None."""
    parts = []
    while isinstance(node, ast.Attribute):
        parts.append(node.attr)
        node = node.value
    if isinstance(node, ast.Name):
        parts.append(node.id)
        return ".".join(reversed(parts))
    return None


def set_parents(tree: ast.AST) -> None:
    for parent in ast.walk(tree):
        for child in ast.iter_child_nodes(parent):
            child._parent = parent  # type: ignore[attr-defined]


def clone(node):
    """Deep copy of a syntax tree that does not follow the ``_parent`` back-links (copy.deepcopy would drag the whole
    module along)."""
    if isinstance(node, list):
        return [clone(x) for x in node]
    if not isinstance(node, ast.AST):
        return node
    new = node.__class__()
    for fld, val in ast.iter_fields(node):
        setattr(new, fld, clone(val))
    for a in ("lineno", "col_offset", "end_lineno", "end_col_offset", "_inl_file", "_inl_func", "_nt_fields"):
        if hasattr(node, a):
            setattr(new, a, getattr(node, a))
    return new


def parent_of(node: ast.AST) -> Optional[ast.AST]:
    return getattr(node, "_parent", None)


def unparse(node: ast.AST) -> str:
    try:
        return ast.unparse(node)
    except Exception:  # pragma: no cover
        return "<%s>" % type(node).__name__


class Program:
    """All modules below ``<repo>/<package>`` plus optional caller directories."""

    def __init__(self, repo: str, package: str = "synrbl", extra: Tuple[str, ...] = ()):
        self.repo = os.path.abspath(repo)
        self.package = package
        self.modules: Dict[str, Module] = {}
        self.functions: Dict[str, Func] = {}
        self.classes: Dict[str, Class] = {}
        self.parse_errors: List[str] = []
        pkg_dir = os.path.join(self.repo, package)
        if not os.path.isdir(pkg_dir):
            raise AnalysisError("package directory %s not found" % pkg_dir)
        self._load_tree(pkg_dir, package)
        for e in extra:
            p = os.path.join(self.repo, e)
            if os.path.isdir(p):
                self._load_tree(p, e.replace("/", "."), as_scripts=True)
            elif os.path.isfile(p):
                self._load_file(p, os.path.splitext(e)[0].replace("/", "."), False)
        for m in self.modules.values():
            self._index_module(m)
        for c in self.classes.values():
            self._resolve_bases(c)

    # ------------------------------------------------------------------ load
    def _load_tree(self, directory: str, modprefix: str, as_scripts: bool = False) -> None:
        for root, dirs, files in os.walk(directory):
            dirs[:] = sorted(d for d in dirs if d != "__pycache__" and not d.startswith("."))
            rel = os.path.relpath(root, directory)
            prefix = modprefix if rel == "." else modprefix + "." + rel.replace(os.sep, ".")
            for f in sorted(files):
                if not f.endswith(".py"):
                    continue
                path = os.path.join(root, f)
                if f == "__init__.py":
                    self._load_file(path, prefix, True)
                else:
                    self._load_file(path, prefix + "." + f[:-3], False)

    def _load_file(self, path: str, modname: str, is_pkg: bool) -> None:
        with open(path, "r", encoding="utf-8") as fh:
            src = fh.read()
        try:
            tree = ast.parse(src, filename=path)
        except SyntaxError as e:
            self.parse_errors.append("%s: %s" % (path, e))
            raise AnalysisError("cannot parse %s: %s" % (path, e))
        set_parents(tree)
        self.modules[modname] = Module(
            name=modname,
            path=path,
            relpath=os.path.relpath(path, self.repo),
            src=src,
            tree=tree,
            is_pkg=is_pkg,
        )

    # ----------------------------------------------------------------- index
    def _abs_import(self, m: Module, level: int, module: Optional[str]) -> str:
        if level == 0:
            return module or ""
        base = m.name.split(".")
        if not m.is_pkg:
            base = base[:-1]
        if level > 1:
            base = base[: len(base) - (level - 1)]
        if module:
            base = base + module.split(".")
        return ".".join(base)

    def _index_module(self, m: Module) -> None:
        for node in m.tree.body:
            self._index_stmt(m, node)
        # imports anywhere at module level inside try/if are also honoured
        for node in ast.walk(m.tree):
            if isinstance(node, ast.Import):
                for a in node.names:
                    if a.asname:
                        m.imports.setdefault(a.asname, a.name)
                    else:
                        top = a.name.split(".")[0]
                        m.imports.setdefault(top, top)
            elif isinstance(node, ast.ImportFrom):
                src = self._abs_import(m, node.level, node.module)
                for a in node.names:
                    m.imports.setdefault(a.asname or a.name, (src + "." + a.name) if src else a.name)

    def _index_stmt(self, m: Module, node: ast.AST) -> None:
        if isinstance(node, (ast.FunctionDef, ast.AsyncFunctionDef)):
            f = Func(qualname=m.name + "." + node.name, node=node, module=m)
            m.functions[node.name] = f
            self.functions[f.qualname] = f
            self._index_nested(f)
        elif isinstance(node, ast.ClassDef):
            c = Class(qualname=m.name + "." + node.name, node=node, module=m)
            m.classes[node.name] = c
            self.classes[c.qualname] = c
            for b in node.body:
                if isinstance(b, (ast.FunctionDef, ast.AsyncFunctionDef)):
                    f = Func(qualname=c.qualname + "." + b.name, node=b, module=m, cls=c)
                    c.methods[b.name] = f
                    self.functions[f.qualname] = f
                    self._index_nested(f)
                elif isinstance(b, ast.Assign):
                    for t in b.targets:
                        if isinstance(t, ast.Name):
                            c.class_attrs[t.id] = b.value
                elif isinstance(b, ast.AnnAssign) and isinstance(b.target, ast.Name) and b.value is not None:
                    c.class_attrs[b.target.id] = b.value
        elif isinstance(node, ast.Assign):
            for t in node.targets:
                if isinstance(t, ast.Name):
                    m.assigns[t.id] = node.value
        elif isinstance(node, ast.AnnAssign) and isinstance(node.target, ast.Name) and node.value is not None:
            m.assigns[node.target.id] = node.value
        elif isinstance(node, (ast.If, ast.Try)):
            for sub in ast.iter_child_nodes(node):
                if isinstance(sub, ast.stmt):
                    self._index_stmt(m, sub)

    def _index_nested(self, f: Func) -> None:
        for node in own_nodes(f.node):
            if isinstance(node, (ast.FunctionDef, ast.AsyncFunctionDef)) and node is not f.node:
                g = Func(
                    qualname=f.qualname + ".<locals>." + node.name,
                    node=node,
                    module=f.module,
                    cls=f.cls,
                    parent=f,
                )
                f.nested[node.name] = g
                self.functions[g.qualname] = g
                self._index_nested(g)

    def _resolve_bases(self, c: Class) -> None:
        for b in c.node.bases:
            d = dotted(b)
            if d is None:
                continue
            c.bases.append(self.resolve_dotted(c.module, d) or d)

    # -------------------------------------------------------------- resolve
    def resolve_symbol(self, target: str, _depth: int = 0) -> Optional[str]:
        """Follow re-exports: dotted import target -> qualname of function,
        class or module known to the program, else the dotted name itself
        (third-party)."""
        if _depth > 8:
            return target
        if target in self.functions or target in self.classes or target in self.modules:
            return target
        if "." in target:
            head, tail = target.rsplit(".", 1)
            rh = self.resolve_symbol(head, _depth + 1)
            if rh in self.modules:
                mod = self.modules[rh]
                if tail in mod.functions:
                    return mod.functions[tail].qualname
                if tail in mod.classes:
                    return mod.classes[tail].qualname
                if tail in mod.imports:
                    return self.resolve_symbol(mod.imports[tail], _depth + 1)
                sub = rh + "." + tail
                if sub in self.modules:
                    return sub
                if tail in mod.assigns:
                    return rh + "." + tail
            elif rh in self.classes:
                cls = self.classes[rh]
                meth = self.lookup_method(cls, tail)
                if meth is not None:
                    return meth.qualname
                return rh + "." + tail
            elif rh is not None and rh != head:
                return rh + "." + tail
        return target

    def resolve_dotted(self, m: Module, name: str) -> Optional[str]:
        """Resolve a dotted name as written in module ``m``."""
        parts = name.split(".")
        head = parts[0]
        if head in m.functions and len(parts) == 1:
            return m.functions[head].qualname
        if head in m.classes:
            base = m.classes[head].qualname
        elif head in m.functions:
            base = m.functions[head].qualname
        elif head in m.imports:
            base = self.resolve_symbol(m.imports[head]) or m.imports[head]
        elif head in m.assigns and len(parts) == 1:
            return m.name + "." + head
        else:
            return None
        for p in parts[1:]:
            base = self.resolve_symbol(base + "." + p) or (base + "." + p)
        return base

    def mro(self, cls: Class) -> List[Class]:
        out, seen, stack = [], set(), [cls]
        while stack:
            c = stack.pop(0)
            if c.qualname in seen:
                continue
            seen.add(c.qualname)
            out.append(c)
            for b in c.bases:
                if b in self.classes:
                    stack.append(self.classes[b])
        return out

    def lookup_method(self, cls: Class, name: str) -> Optional[Func]:
        for c in self.mro(cls):
            if name in c.methods:
                return c.methods[name]
        return None

    def subclasses(self, cls: Class) -> List[Class]:
        return [c for c in self.classes.values() if cls in self.mro(c) and c is not cls]

    # ------------------------------------------------------------- accessors
    def func(self, qualname: str) -> Func:
        if qualname not in self.functions:
            raise AnalysisError("anchor function %s not found in %s" % (qualname, self.repo))
        return self.functions[qualname]

    def cls(self, qualname: str) -> Class:
        if qualname not in self.classes:
            raise AnalysisError("anchor class %s not found in %s" % (qualname, self.repo))
        return self.classes[qualname]

    def module(self, name: str) -> Module:
        if name not in self.modules:
            raise AnalysisError("anchor module %s not found in %s" % (name, self.repo))
        return self.modules[name]

    def package_functions(self) -> Iterator[Func]:
        for q, f in self.functions.items():
            if q.startswith(self.package + "."):
                yield f


def own_nodes(fn_node: ast.AST) -> Iterator[ast.AST]:
    """Nodes of a function body without descending into nested defs/classes
    (the nested def node itself *is* yielded)."""
    stack = list(ast.iter_child_nodes(fn_node))
    while stack:
        n = stack.pop()
        yield n
        if isinstance(n, (ast.FunctionDef, ast.AsyncFunctionDef, ast.ClassDef, ast.Lambda)):
            continue
        stack.extend(ast.iter_child_nodes(n))


def own_nodes_ordered(fn_node: ast.AST) -> List[ast.AST]:
    nodes = [n for n in own_nodes(fn_node) if hasattr(n, "lineno")]
    nodes.sort(key=lambda n: (n.lineno, n.col_offset))
    return nodes


# --------------------------------------------------------------------------
# Type environment and call resolution
# --------------------------------------------------------------------------


class Resolver:
    """Callee resolution (DESIGN.md 1.2)."""

    def __init__(self, prog: Program):
        self.prog = prog
        self._attr_types: Dict[str, Dict[str, str]] = {}
        self._local_types: Dict[str, Dict[str, str]] = {}
        self.stats = {"calls": 0, "resolved": 0, "external": 0, "unresolved": 0}
        self.unresolved: List[str] = []

    # self.attr -> class qualname, from assignments in any method (``__init__`` first)
    def attr_types(self, cls: Class) -> Dict[str, str]:
        if cls.qualname in self._attr_types:
            return self._attr_types[cls.qualname]
        out: Dict[str, str] = {}
        self._attr_types[cls.qualname] = out
        for c in reversed(self.prog.mro(cls)):
            for meth in c.methods.values():
                if not meth.params:
                    continue
                selfname = meth.params[0]
                for n in own_nodes(meth.node):
                    if isinstance(n, ast.Assign):
                        for t in n.targets:
                            if (
                                isinstance(t, ast.Attribute)
                                and isinstance(t.value, ast.Name)
                                and t.value.id == selfname
                            ):
                                ty = self.expr_type(n.value, meth, {})
                                if ty:
                                    out[c.mangle(t.attr)] = ty
        return out

    def annotation_type(self, ann: Optional[ast.AST], m: Module) -> Optional[str]:
        """Type named by an annotation: ``X``, ``mod.X``, ``"X"``,
        ``X | None``, ``Optional[X]``, ``list[X]`` / ``List[X]``."""
        prog = self.prog
        if ann is None:
            return None
        if isinstance(ann, ast.Constant) and isinstance(ann.value, str):
            try:
                ann = ast.parse(ann.value, mode="eval").body
            except SyntaxError:
                return None
        if isinstance(ann, ast.BinOp) and isinstance(ann.op, ast.BitOr):
            return self.annotation_type(ann.left, m) or self.annotation_type(ann.right, m)
        if isinstance(ann, ast.Subscript):
            head = dotted(ann.value) or ""
            inner = ann.slice
            if head.split(".")[-1] in ("list", "List", "Sequence", "Iterable", "Iterator"):
                t = self.annotation_type(inner, m)
                return ("list:" + t) if t else None
            if head.split(".")[-1] == "Optional":
                return self.annotation_type(inner, m)
            return None
        d = dotted(ann)
        if d:
            r = prog.resolve_dotted(m, d)
            if r in prog.classes:
                return r
        return None

    def local_types(self, f: Func) -> Dict[str, str]:
        if f.qualname in self._local_types:
            return self._local_types[f.qualname]
        out: Dict[str, str] = {}
        self._local_types[f.qualname] = out
        if f.parent is not None:
            out.update(self.local_types(f.parent))
        a = f.node.args
        for p in a.posonlyargs + a.args + a.kwonlyargs:
            t = self.annotation_type(p.annotation, f.module)
            if t:
                out[p.arg] = t
        if f.cls is not None and f.params and not f.is_static and f.parent is None:
            out[f.params[0]] = ("type:" if f.is_classmethod else "") + f.cls.qualname
        for _ in range(2):
            for n in own_nodes(f.node):
                if isinstance(n, ast.Assign) and len(n.targets) == 1 and isinstance(n.targets[0], ast.Name):
                    ty = self.expr_type(n.value, f, out)
                    name = n.targets[0].id
                    if ty and (out.get(name) not in self.prog.classes or ty in self.prog.classes):
                        out[name] = ty
                elif isinstance(n, ast.withitem) and isinstance(n.optional_vars, ast.Name):
                    ty = self.expr_type(n.context_expr, f, out)
                    if ty:
                        out[n.optional_vars.id] = ty
                elif isinstance(n, (ast.For, ast.comprehension)) and isinstance(n.target, ast.Name):
                    ty = self.expr_type(n.iter, f, out)
                    if ty and ty.startswith("list:"):
                        out[n.target.id] = ty[5:]
        return out

    def expr_type(self, e: ast.AST, f: Func, local: Dict[str, str]) -> Optional[str]:
        """Class qualname of the value (``type:Q`` for the class object,
        ``list:Q`` for a list of instances), or None."""
        prog = self.prog
        if isinstance(e, ast.Call):
            tgt = self.resolve_callee(e, f, local)
            if tgt and tgt[0] == "class":
                return tgt[1]
            if tgt and tgt[0] == "func":
                g = prog.functions.get(tgt[1])
                if g is not None and g.is_classmethod and g.name in ("build",) and g.cls is not None:
                    return g.cls.qualname
                # return annotation naming a package class
                if g is not None and getattr(g.node, "returns", None) is not None:
                    r = self.annotation_type(g.node.returns, g.module)
                    if r:
                        return r
            if tgt and tgt[0] == "ext":
                return "ext:" + tgt[1]
            return None
        if isinstance(e, ast.Name):
            if e.id in local:
                return local[e.id]
            r = prog.resolve_dotted(f.module, e.id)
            if r in prog.classes:
                return "type:" + r
            if r in prog.modules:
                return "module:" + r
            if r is not None and r not in prog.functions:
                return "extsym:" + r
            return None
        if isinstance(e, ast.Attribute):
            base = self.expr_type(e.value, f, local)
            if base is None:
                return None
            if base.startswith("module:"):
                r = prog.resolve_symbol(base[7:] + "." + e.attr)
                if r in prog.classes:
                    return "type:" + r
                if r in prog.modules:
                    return "module:" + r
                return "extsym:" + (r or base[7:] + "." + e.attr)
            if base.startswith("extsym:"):
                return "extsym:" + base[7:] + "." + e.attr
            q = base[5:] if base.startswith("type:") else base
            if q in prog.classes:
                cls = prog.classes[q]
                attr = f.cls.mangle(e.attr) if f.cls is not None else e.attr
                at = self.attr_types(cls)
                if attr in at:
                    return at[attr]
                # (lazy) property returning a stage object
                pm = prog.lookup_method(cls, e.attr)
                if pm is not None and "property" in pm.decorators and not getattr(self, "_in_prop", False):
                    self._in_prop = True
                    try:
                        for r in own_nodes(pm.node):
                            if isinstance(r, ast.Return) and r.value is not None:
                                ty = self.expr_type(r.value, pm, self.local_types(pm))
                                if ty:
                                    return ty
                    finally:
                        self._in_prop = False
                for c in prog.mro(cls):
                    if e.attr in c.class_attrs:
                        return self.expr_type(c.class_attrs[e.attr], f, {})
            return None
        if isinstance(e, ast.Subscript):
            base = self.expr_type(e.value, f, local)
            if base and base.startswith("list:") and not isinstance(e.slice, ast.Slice):
                return base[5:]
            if base and base.startswith("list:"):
                return base
            return None
        if isinstance(e, ast.List) and e.elts:
            tys = {self.expr_type(x, f, local) for x in e.elts}
            if len(tys) == 1 and None not in tys:
                return "list:" + tys.pop()
        if isinstance(e, ast.ListComp):
            ty = self.expr_type(e.elt, f, local)
            if ty:
                return "list:" + ty
        if isinstance(e, ast.IfExp):
            return self.expr_type(e.body, f, local) or self.expr_type(e.orelse, f, local)
        return None

    def resolve_callee(self, call: ast.Call, f: Func, local: Optional[Dict[str, str]] = None):
        """-> ("func", qualname) | ("class", qualname) | ("ext", dotted) |
        ("method", name, receiver_type_or_None) | None"""
        prog = self.prog
        if local is None:
            local = self.local_types(f)
        fn = call.func
        # delayed(f)(args) / partial-like wrappers are handled by callers
        if isinstance(fn, ast.Name):
            # nested function of this or an enclosing function
            g: Optional[Func] = f
            while g is not None:
                if fn.id in g.nested:
                    return ("func", g.nested[fn.id].qualname)
                g = g.parent
            # a local bound once to a function object (`helper = Class._helper`): the call goes to that function
            if fn.id not in f.params:
                cache = self.__dict__.setdefault("_name_binds", {})
                if f.qualname not in cache:
                    tbl: Dict[str, list] = {}
                    for n in own_nodes(f.node):
                        if isinstance(n, ast.Assign):
                            for t in n.targets:
                                if isinstance(t, ast.Name):
                                    tbl.setdefault(t.id, []).append(n)
                    cache[f.qualname] = tbl
                binds = cache[f.qualname].get(fn.id, [])
                if len(binds) == 1 and isinstance(binds[0].value, (ast.Name, ast.Attribute)) and not (isinstance(binds[0].value, ast.Name) and binds[0].value.id == fn.id):
                    tv = self.resolve_value(binds[0].value, f, local)
                    if tv and tv[0] == "func":
                        return tv
            if fn.id in local:
                ty = local[fn.id]
                if ty.startswith("type:"):
                    return ("class", ty[5:])
                if ty in prog.classes:
                    m = prog.lookup_method(prog.classes[ty], "__call__")
                    if m:
                        return ("func", m.qualname)
                return None
            r = prog.resolve_dotted(f.module, fn.id)
            if r is None:
                import builtins

                if hasattr(builtins, fn.id):
                    return ("ext", "builtins." + fn.id)
                return None
            if r in prog.functions:
                return ("func", r)
            if r in prog.classes:
                return ("class", r)
            return ("ext", r)
        if isinstance(fn, ast.Attribute):
            # super().m(...)
            if (
                isinstance(fn.value, ast.Call)
                and isinstance(fn.value.func, ast.Name)
                and fn.value.func.id == "super"
                and f.cls is not None
            ):
                for c in prog.mro(f.cls)[1:]:
                    if fn.attr in c.methods:
                        return ("func", c.methods[fn.attr].qualname)
                return ("ext", "super." + fn.attr)
            base = self.expr_type(fn.value, f, local)
            if base is not None:
                if base.startswith("module:"):
                    r = prog.resolve_symbol(base[7:] + "." + fn.attr)
                    if r in prog.functions:
                        return ("func", r)
                    if r in prog.classes:
                        return ("class", r)
                    return ("ext", r or base[7:] + "." + fn.attr)
                if base.startswith("extsym:"):
                    return ("ext", base[7:] + "." + fn.attr)
                if base.startswith("ext:"):
                    return ("method", fn.attr, base)
                q = base[5:] if base.startswith("type:") else base
                if q.startswith("list:"):
                    return ("method", fn.attr, base)
                if q in prog.classes:
                    attr = fn.attr
                    if f.cls is not None:
                        attr_m = f.cls.mangle(attr)
                    else:
                        attr_m = attr
                    cls = prog.classes[q]
                    m = prog.lookup_method(cls, attr)
                    if m is None and attr_m != attr:
                        # private method written as self.__x
                        for c in prog.mro(cls):
                            if attr in c.methods:
                                m = c.methods[attr]
                                break
                    if m is not None:
                        return ("func", m.qualname)
                    # attribute holding a callable instance
                    at = self.attr_types(cls)
                    ty = at.get(attr_m) or at.get(attr)
                    if ty and ty in prog.classes:
                        cm = prog.lookup_method(prog.classes[ty], "__call__")
                        if cm:
                            return ("func", cm.qualname)
                    return ("method", fn.attr, base)
            return ("method", fn.attr, None)
        if isinstance(fn, ast.Call):
            # delayed(f)(...) -> f ; Parallel(...)(gen) -> joblib.Parallel.__call__
            inner = self.resolve_callee(fn, f, local)
            if inner and inner[0] == "ext" and inner[1].endswith("delayed") and fn.args:
                tgt = self.resolve_value(fn.args[0], f, local)
                if tgt:
                    return tgt
            if inner and inner[0] == "ext" and inner[1].endswith("Parallel"):
                return ("ext", inner[1] + ".__call__")
            if inner and inner[0] == "class":
                m = prog.lookup_method(prog.classes[inner[1]], "__call__")
                if m:
                    return ("func", m.qualname)
        return None

    def resolve_value(self, e: ast.AST, f: Func, local: Optional[Dict[str, str]] = None):
        """Resolve an expression used as a *function value* (``delayed(f)``,
        ``apply_async(f, ...)``, ``.apply(f)``)."""
        prog = self.prog
        if local is None:
            local = self.local_types(f)
        if isinstance(e, ast.Name):
            g: Optional[Func] = f
            while g is not None:
                if e.id in g.nested:
                    return ("func", g.nested[e.id].qualname)
                g = g.parent
            r = prog.resolve_dotted(f.module, e.id)
            if r in prog.functions:
                return ("func", r)
            if r in prog.classes:
                return ("class", r)
            if r:
                return ("ext", r)
            return None
        if isinstance(e, ast.Attribute):
            fake = ast.Call(func=e, args=[], keywords=[])
            return self.resolve_callee(fake, f, local)
        return None

    def calls_in(self, f: Func) -> List[Tuple[ast.Call, Optional[tuple]]]:
        out = []
        local = self.local_types(f)
        for n in own_nodes(f.node):
            if isinstance(n, ast.Call):
                tgt = self.resolve_callee(n, f, local)
                out.append((n, tgt))
        return out

    def call_graph(self) -> Dict[str, set]:
        """qualname -> set of package callee qualnames (incl. higher-order
        edges through delayed/apply_async/apply/map)."""
        prog = self.prog
        graph: Dict[str, set] = {}
        self.stats = {"calls": 0, "resolved": 0, "external": 0, "unresolved": 0}
        self.unresolved = []
        for q, f in prog.functions.items():
            edges = graph.setdefault(q, set())
            local = self.local_types(f)
            for n in own_nodes(f.node):
                if isinstance(n, (ast.FunctionDef, ast.AsyncFunctionDef)) and n is not f.node:
                    continue
                if not isinstance(n, ast.Call):
                    continue
                self.stats["calls"] += 1
                tgt = self.resolve_callee(n, f, local)
                if tgt is None:
                    self.stats["unresolved"] += 1
                    self.unresolved.append("%s %s" % (f.loc(n), unparse(n.func)[:60]))
                    # call of a variable / table entry: any package callable
                    # object may be meant (over-approximation)
                    for c in prog.classes.values():
                        if "__call__" in c.methods and c.qualname.startswith(prog.package + "."):
                            edges.add(c.methods["__call__"].qualname)
                elif tgt[0] == "func":
                    self.stats["resolved"] += 1
                    edges.add(tgt[1])
                    # dynamic dispatch: overrides in subclasses may be meant
                    m = prog.functions.get(tgt[1])
                    if m is not None and m.cls is not None and m.parent is None and isinstance(n.func, ast.Attribute) and not m.is_static:
                        for sub in self._subclasses(m.cls):
                            if m.name in sub.methods:
                                edges.add(sub.methods[m.name].qualname)
                elif tgt[0] == "class":
                    self.stats["resolved"] += 1
                    init = prog.lookup_method(prog.classes[tgt[1]], "__init__")
                    if init:
                        edges.add(init.qualname)
                elif tgt[0] == "ext":
                    self.stats["external"] += 1
                else:
                    # method on unknown / external receiver: class-hierarchy
                    # style fallback by method name (over-approximation, used
                    # for reachability only)
                    cands = self.methods_named(tgt[1]) if (tgt[2] is None or not str(tgt[2]).startswith("ext:")) else []
                    if cands:
                        self.stats["by_name"] = self.stats.get("by_name", 0) + 1
                        edges.update(c.qualname for c in cands)
                    else:
                        self.stats["external"] += 1
                # function values passed as arguments
                for a in list(n.args) + [k.value for k in n.keywords]:
                    if isinstance(a, (ast.Name, ast.Attribute)):
                        v = self.resolve_value(a, f, local)
                        if v and v[0] == "func":
                            edges.add(v[1])
            # iteration protocol and property reads on typed receivers
            for n in own_nodes(f.node):
                if isinstance(n, (ast.For, ast.comprehension)):
                    its = [n.iter]
                    if (
                        isinstance(n.iter, ast.Call)
                        and isinstance(n.iter.func, ast.Name)
                        and n.iter.func.id in ("enumerate", "iter", "zip", "reversed", "sorted", "list")
                    ):
                        its = list(n.iter.args)
                    for it in its:
                        ty = self.expr_type(it, f, local)
                        if ty in prog.classes:
                            for mn in ("__iter__", "__next__"):
                                mm = prog.lookup_method(prog.classes[ty], mn)
                                if mm:
                                    edges.add(mm.qualname)
                elif isinstance(n, ast.Attribute) and isinstance(n.ctx, ast.Load):
                    ty = self.expr_type(n.value, f, local)
                    if ty in prog.classes:
                        mm = prog.lookup_method(prog.classes[ty], n.attr)
                        if mm is not None and "property" in mm.decorators:
                            edges.add(mm.qualname)
            # nested functions are reachable from their parent
            for g in f.nested.values():
                edges.add(g.qualname)
        return graph

    _COMMON = {
        "get", "append", "extend", "items", "keys", "values", "split", "join", "format",
        "copy", "update", "pop", "remove", "add", "index", "count", "sort", "replace",
        "strip", "lower", "upper", "startswith", "endswith", "read", "write", "close",
        "open", "search", "sub", "findall", "match", "info", "warning", "error", "debug",
    }

    def _subclasses(self, cls: Class) -> List[Class]:
        cache = getattr(self, "_subcls", None)
        if cache is None:
            cache = self._subcls = {}
        if cls.qualname not in cache:
            cache[cls.qualname] = self.prog.subclasses(cls)
        return cache[cls.qualname]

    def methods_named(self, name: str) -> List[Func]:
        if name in self._COMMON and name not in ("match",):
            return []
        if name.startswith("__") and name.endswith("__"):
            return []
        out = []
        for c in self.prog.classes.values():
            if not c.qualname.startswith(self.prog.package + "."):
                continue
            if name in c.methods:
                out.append(c.methods[name])
        return out

    def reachable(self, roots: List[str], graph: Optional[Dict[str, set]] = None) -> set:
        graph = graph if graph is not None else self.call_graph()
        seen, stack = set(), list(roots)
        while stack:
            q = stack.pop()
            if q in seen:
                continue
            seen.add(q)
            stack.extend(graph.get(q, ()))
        return seen
