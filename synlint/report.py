"""Findings, rule-instance bookkeeping, known findings, evidence files."""

from __future__ import annotations

import json
import ast
import os
import time
from dataclasses import dataclass, field
from typing import Dict, List, Optional

from .model import AnalysisError, Program, Resolver
from .values import Evaluator, Instance

VERIF = os.path.dirname(os.path.dirname(os.path.abspath(__file__)))


@dataclass
class Finding:
    prop: str
    rule: str
    construct: str  # semantic key: qualified name + discriminator, never a line number
    where: str  # file:line (diagnostic only)
    message: str
    path: Optional[str] = None  # entry point / offending exit for path rules

    @property
    def key(self):
        return (self.prop, self.rule, self.construct)

    def line(self) -> str:
        s = "%s  %s  %s  -- %s" % (self.where, self.rule, self.construct, self.message)
        if self.path:
            s += "  [path: %s]" % self.path
        return s


@dataclass
class RuleStat:
    rule: str
    template: str
    min_instances: int
    instances: List[dict] = field(default_factory=list)
    nontrivial: set = field(default_factory=set)


def keep_set(prog: Program, explicit_only: bool = False) -> set:
    """Functions the rules name (anchors): never inlined into their callers."""
    import glob

    from .inline import anchors_from_sources

    here = os.path.dirname(os.path.abspath(__file__))
    srcs = glob.glob(os.path.join(here, "*.py")) + glob.glob(os.path.join(here, "props", "*.py"))
    names = anchors_from_sources(srcs)
    # suffixes appended to a module / class constant: RULES + ".MergeRule.apply", CM + ".write_cache"
    import re

    suffixes = set()
    for p_ in srcs:
        for m in re.finditer(r"[\"'](\.[A-Za-z_][\w.<>]*)[\"']", open(p_, encoding="utf-8").read()):
            suffixes.add(m.group(1))
    # identifiers the rules mention by name ("filter_data", "parallel_impute", "standardize_", ...)
    idents = set()
    for p_ in srcs:
        try:
            tree = ast.parse(open(p_, encoding="utf-8").read())
        except SyntaxError:
            continue
        for n in ast.walk(tree):
            if isinstance(n, ast.Constant) and isinstance(n.value, str) and re.fullmatch(r"[A-Za-z_]\w{2,}", n.value):
                idents.add(n.value)
    keep = set()
    for q, f in prog.functions.items():
        if q in names or any(q.endswith(sfx) for sfx in suffixes) or f.name in idents or any(f.name.startswith(i) for i in idents if i.endswith("_")):
            keep.add(q)
        if f.cls is not None and f.cls.qualname in names and not explicit_only:
            keep.add(q)
        # nested functions of anchors stay with them
        if f.parent is not None and (f.parent.qualname in names):
            keep.add(q)
    return keep


def reference_functions() -> set:
    here = os.path.dirname(os.path.abspath(__file__))
    out = set()
    with open(os.path.join(here, "reference_functions.txt"), encoding="utf-8") as fh:
        for line in fh:
            line = line.strip()
            if line and not line.startswith("#"):
                out.add(line)
    return out


def normalise(prog: Program) -> list:
    """Expand helpers that do not exist on the reference tree (extract-method refactorings, new plumbing) in place."""
    from .inline import Inliner

    ref = reference_functions()
    new_helpers = {q for q in prog.functions if q.startswith(prog.package + ".") and q not in ref}
    if not new_helpers:
        return []
    keep = (set(prog.functions) - new_helpers) | (keep_set(prog, explicit_only=True) & new_helpers)
    inl = Inliner(prog, keep, candidates=new_helpers - keep)
    inl.run()
    return inl.log


class Ctx:
    """Everything a property checker needs, plus result collection."""

    def __init__(self, repo: str, prop: str, tier: str = "quick", seed: int = 0):
        self.repo = os.path.abspath(repo)
        self.prop = prop
        self.tier = tier
        self.seed = seed
        self.t0 = time.time()
        extra = ("Scripts", "Pipeline", "per_dataset_benchmark.py")
        self.prog = Program(self.repo, extra=extra)
        self.inlined: list = []
        self.canonicalised: list = []
        if os.environ.get("SYNLINT_NO_INLINE") != "1":
            self.inlined = normalise(self.prog)
        if os.environ.get("SYNLINT_NO_INLINE") != "1":
            from .inline import destructure_namedtuples

            destructure_namedtuples(self.prog)
        if os.environ.get("SYNLINT_NO_CANON") != "1":
            from .canon import propagate_string_constants

            propagate_string_constants(self.prog)
        if os.environ.get("SYNLINT_NO_CANON") != "1":
            from .canon import canonicalise

            for q in sorted(self.prog.functions):
                if q.startswith(self.prog.package + ".") and canonicalise(self.prog.functions[q]):
                    self.canonicalised.append(q)
        self.res = Resolver(self.prog)
        self.ev = Evaluator(self.prog, self.res)
        self.findings: List[Finding] = []
        self.rules: Dict[str, RuleStat] = {}
        self.notes: List[str] = []
        self._balancer: Optional[Instance] = None
        self._graph = None

    # -- shared model pieces --------------------------------------------
    @property
    def balancer(self) -> Instance:
        if self._balancer is None:
            cls = self.prog.cls("synrbl.balancing.Balancer")
            self._balancer = self.ev.instantiate(cls, None, None, origin="Balancer", sym_params=True)
        return self._balancer

    def stage(self, attr: str) -> Instance:
        b = self.balancer
        key = b.cls.mangle(attr)
        if key not in b.attr_inst:
            raise AnalysisError("Balancer.%s is no longer a resolvable stage object" % attr)
        return b.attr_inst[key]

    @property
    def graph(self):
        if self._graph is None:
            self._graph = self.res.call_graph()
        return self._graph

    def pipeline_reachable(self) -> set:
        roots = [
            "synrbl.balancing.Balancer.rebalance",
            "synrbl.balancing.Balancer.__init__",
        ]
        for r in roots:
            self.prog.func(r)
        return self.res.reachable(roots, self.graph)

    # -- bookkeeping ----------------------------------------------------
    def rule(self, rule: str, template: str, min_instances: int = 1) -> RuleStat:
        if rule not in self.rules:
            self.rules[rule] = RuleStat(rule=rule, template=template, min_instances=min_instances)
        return self.rules[rule]

    def instance(self, rule: str, what: str, where: str = "", nontrivial: bool = True, **detail) -> None:
        rs = self.rules[rule]
        d = {"instance": what}
        if where:
            d["where"] = where
        d.update({k: (v if isinstance(v, (int, float, bool, str, list, dict, type(None))) else repr(v)) for k, v in detail.items()})
        rs.instances.append(d)
        if nontrivial:
            rs.nontrivial.add(what)

    def finding(self, rule: str, construct: str, where: str, message: str, path: Optional[str] = None) -> None:
        f = Finding(self.prop, rule, construct, where, message, path)
        if f.key not in {x.key for x in self.findings}:
            self.findings.append(f)

    @property
    def raw(self):
        """(program, resolver) as written - before helper expansion and canonical forms (for rules about call sites)"""
        if getattr(self, "_raw", None) is None:
            rp = Program(self.repo, extra=("Scripts", "Pipeline", "per_dataset_benchmark.py"))
            self._raw = (rp, Resolver(rp))
        return self._raw

    def require(self, cond, msg: str) -> None:
        if not cond:
            raise AnalysisError(msg)

    def note(self, msg: str) -> None:
        self.notes.append(msg)

    def check_vacuity(self) -> None:
        for rs in self.rules.values():
            if len(rs.instances) < rs.min_instances:
                raise AnalysisError(
                    "rule %s matched %d instance(s), fewer than the %d confirmed by hand "
                    "(anchor moved or resolver lost it)" % (rs.rule, len(rs.instances), rs.min_instances)
                )


# ---------------------------------------------------------------------------


def load_known() -> List[dict]:
    path = os.path.join(VERIF, "known_findings.json")
    if not os.path.exists(path):
        return []
    with open(path) as fh:
        data = json.load(fh)
    return data.get("findings", [])


def split_known(findings: List[Finding], known: List[dict]):
    kn = {(k["property"], k["rule"], k["construct"]): k for k in known if k.get("status") == "known"}
    listed, fresh = [], []
    for f in findings:
        if f.key in kn:
            listed.append((f, kn[f.key]))
        else:
            fresh.append(f)
    return listed, fresh


def write_evidence(ctx: Ctx, explanation: str, assumptions: List[str], violations: int, extra: Optional[dict] = None, evidence_dir: Optional[str] = None) -> str:
    evaluations = sum(len(r.instances) for r in ctx.rules.values())
    distinct = sum(len(r.nontrivial) for r in ctx.rules.values())
    samples = []
    for r in ctx.rules.values():
        samples.append(
            {
                "rule": r.rule,
                "template": r.template,
                "min_instances": r.min_instances,
                "n_instances": len(r.instances),
                "instances": r.instances[:40],
            }
        )
    cov = {
        "explanation": explanation,
        "evaluations": evaluations,
        "distinct_nontrivial": distinct,
        "rule": "one evaluation = one rule instance (call site, store, table record, regex alternative, "
        "path obligation) examined on /repo's working tree; non-trivial = the rule had something to "
        "decide on it (distinct constructs, counted as a set)",
        "samples": samples,
        "analysed": {
            "modules": len(ctx.prog.modules),
            "functions": len(ctx.prog.functions),
            "classes": len(ctx.prog.classes),
            "call_sites": ctx.res.stats.get("calls", 0),
            "calls_resolved_in_package": ctx.res.stats.get("resolved", 0),
            "calls_external": ctx.res.stats.get("external", 0),
            "calls_by_name_fallback": ctx.res.stats.get("by_name", 0),
            "calls_unresolved": ctx.res.stats.get("unresolved", 0),
        },
        "findings": [f.line() for f in ctx.findings],
        "notes": ctx.notes,
        "trusted_base": ["CPython ast / re._parser / json / gzip", "synlint resolver", "RDKit as constant folder for SMILES literals in tables"],
    }
    if extra:
        cov.update(extra)
    ev = {
        "property_id": ctx.prop,
        "tier": ctx.tier,
        "seed": int(ctx.seed),
        "level": "other",
        "coverage": cov,
        "assumptions": assumptions,
        "wall_s": round(time.time() - ctx.t0, 3),
        "violations": violations,
    }
    d = evidence_dir or os.path.join(VERIF, "evidence")
    os.makedirs(d, exist_ok=True)
    path = os.path.join(d, "%s.json" % ctx.prop)
    tmp = path + ".tmp"
    with open(tmp, "w") as fh:
        json.dump(ev, fh, indent=1, sort_keys=False, default=repr)
    os.replace(tmp, path)
    return path
