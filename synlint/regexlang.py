"""Regular-expression literals as languages (DESIGN.md 1.7).

``re._parser`` gives the syntax tree of a pattern literal; from it we get the
alternation branches of a group, finiteness, an enumeration of a finite
language (character classes are represented by witnesses) and the presence
of look-around context.
"""

from __future__ import annotations

import ast
import re
from re import _constants as C
from re import _parser
from typing import List, Optional, Set, Tuple

from .model import AnalysisError, Func, own_nodes


def parse(pattern: str):
    return _parser.parse(pattern)


def _witnesses_in(items) -> Optional[List[str]]:
    out: List[str] = []
    negate = False
    for op, av in items:
        if op is C.NEGATE:
            negate = True
        elif op is C.LITERAL:
            out.append(chr(av))
        elif op is C.RANGE:
            lo, hi = av
            out.extend({chr(lo), chr(hi)})
        elif op is C.CATEGORY:
            if av is C.CATEGORY_DIGIT:
                out.extend(["0", "2", "9"])
            elif av is C.CATEGORY_WORD:
                out.extend(["a", "Z", "5", "_"])
            else:
                return None
        else:
            return None
    if negate:
        return None
    return out


def _is_digit_class(sub) -> bool:
    items = list(sub)
    if len(items) != 1:
        return False
    op, av = items[0]
    if op is C.IN:
        return all((o is C.CATEGORY and a is C.CATEGORY_DIGIT) or (o is C.RANGE and a == (48, 57)) for o, a in av)
    return False


def enumerate_language(tree, max_rep: int = 3, limit: int = 20000) -> Optional[List[str]]:
    """All strings of a *finite* pattern (classes replaced by witnesses), or
    None when the pattern is not finite / uses unsupported constructs."""

    def seq(items) -> Optional[List[str]]:
        acc = [""]
        for op, av in items:
            nxt = one(op, av)
            if nxt is None:
                return None
            acc = [a + b for a in acc for b in nxt]
            if len(acc) > limit:
                return None
        return acc

    def one(op, av) -> Optional[List[str]]:
        if op is C.LITERAL:
            return [chr(av)]
        if op is C.IN:
            return _witnesses_in(av)
        if op is C.SUBPATTERN:
            return seq(av[3])
        if op is C.BRANCH:
            out: List[str] = []
            for alt in av[1]:
                s = seq(alt)
                if s is None:
                    return None
                out.extend(s)
            return out
        if op in (C.MAX_REPEAT, C.MIN_REPEAT):
            lo, hi, sub = av
            if hi is C.MAXREPEAT and _is_digit_class(sub):
                # \d+ / \d*: a number; two representatives stand for all of them
                hi = lo + 1
            if hi is C.MAXREPEAT or hi > max_rep:
                return None
            base = seq(sub)
            if base is None:
                return None
            out = []
            for n in range(lo, hi + 1):
                cur = [""]
                for _ in range(n):
                    cur = [a + b for a in cur for b in base]
                out.extend(cur)
            return out
        if op in (C.ASSERT, C.ASSERT_NOT, C.AT):
            return [""]
        return None

    return seq(tree)


def branches(tree, group_name: Optional[str] = None) -> List[str]:
    """Alternatives of the first BRANCH (inside the named group when given)."""
    found: List[str] = []

    def walk(items, inside: bool):
        for op, av in items:
            if op is C.SUBPATTERN:
                gid = av[0]
                name = None
                if gid is not None:
                    for k, v in tree.state.groupdict.items():
                        if v == gid:
                            name = k
                walk(av[3], inside or group_name is None or name == group_name)
            elif op is C.BRANCH:
                if inside or group_name is None:
                    for alt in av[1]:
                        s = enumerate_language(alt)
                        if s is not None:
                            found.extend(s)
                for alt in av[1]:
                    walk(alt, inside)
            elif op in (C.MAX_REPEAT, C.MIN_REPEAT):
                walk(av[2], inside)
            elif op in (C.ASSERT, C.ASSERT_NOT):
                walk(av[1], inside)

    walk(tree, group_name is None)
    return found


def has_lookaround(tree) -> bool:
    def walk(items) -> bool:
        for op, av in items:
            if op in (C.ASSERT, C.ASSERT_NOT):
                return True
            if op is C.SUBPATTERN and walk(av[3]):
                return True
            if op is C.BRANCH and any(walk(a) for a in av[1]):
                return True
            if op in (C.MAX_REPEAT, C.MIN_REPEAT) and walk(av[2]):
                return True
        return False

    return walk(tree)


def compiled_patterns(func: Func) -> List[Tuple[ast.Call, str, Optional[str]]]:
    """(re.compile call, pattern literal, name it is bound to) in source order."""
    out = []
    for n in own_nodes(func.node):
        if isinstance(n, ast.Call) and isinstance(n.func, ast.Attribute) and n.func.attr == "compile" and n.args:
            a = n.args[0]
            if isinstance(a, ast.Constant) and isinstance(a.value, str):
                par = getattr(n, "_parent", None)
                name = None
                if isinstance(par, ast.Assign) and len(par.targets) == 1 and isinstance(par.targets[0], ast.Name):
                    name = par.targets[0].id
                out.append((n, a.value, name))
            elif isinstance(a, ast.JoinedStr):
                out.append((n, None, None))
    out.sort(key=lambda t: (t[0].lineno, t[0].col_offset))
    return out
