"""Small AST helpers shared by the property checkers."""

from __future__ import annotations

import ast
from typing import Callable, Dict, Iterator, List, Optional, Tuple

from .model import Func, dotted, own_nodes, parent_of, unparse


def calls(func: Func) -> List[ast.Call]:
    out = [n for n in own_nodes(func.node) if isinstance(n, ast.Call)]
    out.sort(key=lambda n: (n.lineno, n.col_offset))
    return out


def assignments_to(func: Func, name: str) -> List[Tuple[ast.AST, ast.AST, Optional[int]]]:
    """(statement, value, tuple index or None) for every binding of a local
    name by assignment (incl. tuple unpacking)."""
    out = []
    for n in own_nodes(func.node):
        if isinstance(n, ast.Assign):
            for t in n.targets:
                if isinstance(t, ast.Name) and t.id == name:
                    out.append((n, n.value, None))
                elif isinstance(t, (ast.Tuple, ast.List)):
                    for i, x in enumerate(t.elts):
                        if isinstance(x, ast.Name) and x.id == name:
                            out.append((n, n.value, i))
        elif isinstance(n, ast.AnnAssign) and isinstance(n.target, ast.Name) and n.target.id == name and n.value is not None:
            out.append((n, n.value, None))
    out.sort(key=lambda t: t[0].lineno)
    return out


def loop_binding(func: Func, name: str) -> List[Tuple[ast.AST, ast.AST, ast.AST]]:
    """(loop node, target, iter) of for-loops / comprehensions binding name."""
    out = []
    for n in own_nodes(func.node):
        if isinstance(n, (ast.For, ast.comprehension)):
            if any(isinstance(x, ast.Name) and x.id == name for x in ast.walk(n.target)):
                out.append((n, n.target, n.iter))
    return out


def zip_partner(func: Func, name: str) -> Optional[Tuple[ast.AST, int, List[ast.AST]]]:
    """If ``name`` is bound by ``for .., name, .. in zip(a, b, ..)`` return
    (loop, position, zip args)."""
    for loop, target, it in loop_binding(func, name):
        if isinstance(it, ast.Call) and isinstance(it.func, ast.Name) and it.func.id == "zip" and isinstance(target, ast.Tuple):
            for i, t in enumerate(target.elts):
                if isinstance(t, ast.Name) and t.id == name and i < len(it.args):
                    return loop, i, list(it.args)
    return None


def names_in(e: ast.AST) -> set:
    return {n.id for n in ast.walk(e) if isinstance(n, ast.Name)}


def enclosing_stmt(node: ast.AST) -> Optional[ast.stmt]:
    cur = node
    while cur is not None and not isinstance(cur, ast.stmt):
        cur = parent_of(cur)
    return cur


def enclosing(node: ast.AST, kinds) -> Optional[ast.AST]:
    cur = parent_of(node)
    while cur is not None:
        if isinstance(cur, kinds):
            return cur
        if isinstance(cur, (ast.FunctionDef, ast.AsyncFunctionDef, ast.Lambda, ast.ClassDef)):
            return None
        cur = parent_of(cur)
    return None


def same_block_before(a: ast.stmt, b: ast.stmt) -> bool:
    """a and b are statements of the same statement list and a precedes b."""
    pa, pb = parent_of(a), parent_of(b)
    if pa is None or pa is not pb:
        return False
    for fld in ("body", "orelse", "finalbody"):
        lst = getattr(pa, fld, None)
        if isinstance(lst, list) and a in lst and b in lst:
            return lst.index(a) < lst.index(b)
    return False


def const_str(e: ast.AST) -> Optional[str]:
    if isinstance(e, ast.Constant) and isinstance(e.value, str):
        return e.value
    return None


def is_call_to(e: ast.AST, *names: str) -> bool:
    if not isinstance(e, ast.Call):
        return False
    d = dotted(e.func) or ""
    return d in names or d.split(".")[-1] in names


def kwarg(call: ast.Call, name: str, pos: Optional[int] = None) -> Optional[ast.AST]:
    for k in call.keywords:
        if k.arg == name:
            return k.value
    if pos is not None and pos < len(call.args):
        return call.args[pos]
    return None


def arg_of(call: ast.Call, callee: Func, name: str, skip_self: bool = False) -> Optional[ast.AST]:
    """Argument expression bound to parameter ``name`` at this call site."""
    params = callee.params[1:] if skip_self else callee.params
    for k in call.keywords:
        if k.arg == name:
            return k.value
    if name in params:
        i = params.index(name)
        if i < len(call.args) and not any(isinstance(a, ast.Starred) for a in call.args[: i + 1]):
            return call.args[i]
    return None


def returns_of(func: Func) -> List[ast.Return]:
    out = [n for n in own_nodes(func.node) if isinstance(n, ast.Return)]
    out.sort(key=lambda n: n.lineno)
    return out


def norm_stmt(node: ast.AST) -> str:
    """Normalised statement text (stable under reformatting)."""
    return " ".join(unparse(node).split())


def _is_log_call(n: ast.AST) -> bool:
    return isinstance(n, ast.Call) and (unparse(n.func).split(".")[0] in ("logger", "logging", "log", "warnings") or unparse(n.func) == "print")


def _only_logging(stmts) -> bool:
    return all(isinstance(x, ast.Pass) or (isinstance(x, ast.Expr) and _is_log_call(x.value)) for x in stmts)


def influences_result(a: ast.AST) -> bool:
    """False when the attribute read can only influence log output."""
    cur, par = a, getattr(a, "_parent", None)
    while par is not None and not isinstance(par, (ast.FunctionDef, ast.AsyncFunctionDef)):
        if _is_log_call(par):
            return False
        if isinstance(par, ast.If) and (cur is par.test or any(cur is x for x in ast.walk(par.test))):
            if _only_logging(par.body) and _only_logging(par.orelse):
                return False
            return True
        if isinstance(par, ast.stmt):
            return True
        cur, par = par, getattr(par, "_parent", None)
    return True




def param_attrs(cls, pname: str) -> set:
    """attribute names under which ``cls.__init__`` stores its parameter ``pname`` (plus the name itself)"""
    out = {pname}
    init = cls.methods.get("__init__") if cls is not None and hasattr(cls, "methods") else None
    if init is None or pname not in init.params + init.kwonly:
        return out
    for n in ast.walk(init.node):
        if isinstance(n, ast.Assign) and isinstance(n.value, ast.Name) and n.value.id == pname:
            for t in n.targets:
                if isinstance(t, ast.Attribute) and isinstance(t.value, ast.Name) and t.value.id == init.params[0]:
                    out.add(t.attr)
    return out
