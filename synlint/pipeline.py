"""Stage sequence of ``Balancer.__run_pipeline`` with resolved instance
environments and per-stage row-store summaries (DESIGN.md A.1)."""

from __future__ import annotations

import ast
from dataclasses import dataclass, field
from typing import Dict, List, Optional

from .model import AnalysisError, Func, own_nodes, unparse
from .rows import KeyStore, RowStore, collect_row_stores
from .values import Env, Instance, Val, ValSet, texts, vs

BALANCER = "synrbl.balancing.Balancer"
RUN_PIPELINE = BALANCER + ".__run_pipeline"


@dataclass
class Stage:
    index: int
    call: ast.Call
    stmt: ast.stmt
    callee: Func
    inst: Optional[Instance]
    attr: str  # Balancer attribute holding the stage object ('' for functions / own methods)
    params: Dict[str, ValSet]
    stores: List[RowStore] = field(default_factory=list)
    frame_stores: list = field(default_factory=list)
    env: Optional[Env] = None
    rows_rebound: bool = False  # ``reactions = stage(reactions, ...)``

    inline: bool = False

    @property
    def label(self) -> str:
        if self.inline:
            return "<inline line %d>" % self.stmt.lineno
        if self.attr:
            return "%s.%s" % (self.attr, self.callee.name)
        return self.callee.name

    def where(self) -> str:
        return "synrbl/balancing.py:%d" % self.call.lineno

    def kw(self, name: str) -> ValSet:
        return self.params.get(name, frozenset())

    def kw_effective(self, ctx, name: str) -> ValSet:
        """value of parameter ``name`` as the body sees it: the call-site binding, or - when the callee replaces a
        ``None`` argument by an option of its object (`if p is None: p = self.p`) - that option"""
        from .util import assignments_to

        flag = self.kw(name)
        rebinds = [v for _st, v, _i in assignments_to(self.callee, name)]
        if rebinds and self.env is not None:
            vals = set()
            for v in rebinds:
                vals |= set(ctx.ev.eval(v, self.env))
            if flag == frozenset({Val("const", None)}):
                return frozenset(vals)
            return frozenset(set(flag) | vals)
        return flag

    def writes(self, key: Val) -> List[RowStore]:
        return [s for s in self.stores if key in s.keys or any(x.kind == "unknown" for x in s.keys) and False]

    def writes_text(self, text: str) -> List[RowStore]:
        return [s for s in self.stores if text in s.keytexts]


class Pipeline:
    def __init__(self, ctx):
        self.ctx = ctx
        prog = ctx.prog
        self.func = prog.func(RUN_PIPELINE)
        self.balancer = ctx.balancer
        f = self.func
        ctx.require(len(f.params) >= 2, "__run_pipeline lost its rows parameter")
        self.rows_param = f.params[1]
        self.env = Env(func=f, params={p: frozenset({Val("unknown")}) for p in f.params[1:]}, inst=self.balancer)
        self.stages: List[Stage] = []
        self.inlined: List[str] = []
        self._build()

    # column helpers -----------------------------------------------------
    def col(self, attr: str) -> Val:
        v = self.balancer.get(attr)
        if len(v) != 1 or next(iter(v)).kind == "unknown":
            raise AnalysisError("Balancer.%s does not evaluate to a single column key (%r)" % (attr, v))
        return next(iter(v))

    @property
    def reaction_col(self) -> Val:
        return self.col("__reaction_col")

    @property
    def solved_col(self) -> Val:
        return self.col("__solved_col")

    @property
    def solved_by_col(self) -> Val:
        return self.col("__solved_by_col")

    @property
    def input_col(self) -> Val:
        return self.col("__input_col")

    @property
    def issue_col(self) -> Val:
        return self.col("__issue_col")

    @property
    def id_col(self) -> Val:
        return self.col("__id_col")

    # ---------------------------------------------------------------------
    def _build(self) -> None:
        self._idx = 0
        self._walk(self.func, self.env, {self.rows_param}, 0)

    def _is_orchestration(self, callee: Func) -> bool:
        """A method of the Balancer that hands *its own rows parameter* on to stage
        objects / package functions: its body is part of the stage sequence."""
        if callee.cls is not self.balancer.cls or len(callee.params) < 2:
            return False
        rows = callee.params[1]
        n = 0
        for c in [x for x in own_nodes(callee.node) if isinstance(x, ast.Call)]:
            passes = any(isinstance(a, ast.Name) and a.id == rows for a in c.args) or any(isinstance(k.value, ast.Name) and k.value.id == rows for k in c.keywords)
            if not passes or not isinstance(c.func, ast.Attribute):
                continue
            recv = c.func.value
            if isinstance(recv, ast.Attribute) and isinstance(recv.value, ast.Name) and recv.value.id == callee.params[0]:
                n += 1  # self.<stage>.method(rows)
        return n >= 1

    def _walk(self, f: Func, env: Env, rows_names, depth: int) -> None:
        ctx = self.ctx
        body = f.node.body
        from .rows import RowFlow

        inline_flow = RowFlow(ctx.ev, f, env, set(rows_names))
        inline_stores = inline_flow.stores()

        def flat(stmts):
            """`with <ctx>:` blocks (timing, logging scopes) and try bodies are straight-line parts of the sequence"""
            for s_ in stmts:
                if isinstance(s_, (ast.With, ast.AsyncWith)):
                    yield from flat(s_.body)
                elif isinstance(s_, ast.Try) and not any(isinstance(x, ast.Return) for h in s_.handlers for x in ast.walk(h)):
                    yield from flat(s_.body)
                    yield from flat(s_.orelse)
                    yield from flat(s_.finalbody)
                else:
                    yield s_

        for stmt in flat(body):
            # row stores written directly in the pipeline function form a pseudo stage
            mine = [s for s in inline_stores if any(n is s.node for n in ast.walk(stmt))]
            if mine:
                fake = ast.Call(func=ast.Name(id="<inline>", ctx=ast.Load()), args=[], keywords=[])
                ast.copy_location(fake, stmt)
                st = Stage(index=self._idx, call=fake, stmt=stmt, callee=f, inst=self.balancer, attr="", params={})
                st.stores = mine
                st.inline = True
                for s in mine:
                    s.via = [f.qualname]
                self.stages.append(st)
                self._idx += 1
            # only top-level straight-line statements form the stage sequence;
            # calls nested in `if stats is not None` etc. are looked at too
            for call in _calls_in_stmt(stmt):
                passes_rows = any(isinstance(a, ast.Name) and a.id in rows_names for a in call.args) or any(
                    isinstance(k.value, ast.Name) and k.value.id in rows_names for k in call.keywords
                )
                if not passes_rows:
                    continue
                tgt = ctx.res.resolve_callee(call, f)
                if not tgt or tgt[0] != "func":
                    if tgt and tgt[0] == "ext" and tgt[1] in ("builtins.len",):
                        continue
                    raise AnalysisError(
                        "%s: call %s receives the rows but does not resolve to a package function" % (f.loc(call), unparse(call.func))
                    )
                callee = ctx.prog.functions[tgt[1]]
                inst, attr, skip_self = None, "", False
                if isinstance(call.func, ast.Attribute):
                    recv = call.func.value
                    if isinstance(recv, ast.Attribute) and isinstance(recv.value, ast.Name) and recv.value.id == f.params[0]:
                        attr = recv.attr
                        inst = self.balancer.attr_inst.get(self.balancer.cls.mangle(attr))
                        if inst is None:
                            raise AnalysisError("%s: stage object self.%s has no resolvable constructor" % (f.loc(call), attr))
                        skip_self = True
                    elif isinstance(recv, ast.Name) and recv.id == f.params[0]:
                        inst = self.balancer
                        skip_self = True
                params = ctx.ev.bind_call(callee, call, env, skip_self=skip_self)
                cenv = Env(func=callee, params=params, inst=inst)
                names = callee.params[1:] if skip_self else callee.params
                containers = set()
                for i, a in enumerate(call.args):
                    if isinstance(a, ast.Name) and a.id in rows_names and i < len(names):
                        containers.add(names[i])
                for k in call.keywords:
                    if isinstance(k.value, ast.Name) and k.value.id in rows_names and k.arg:
                        containers.add(k.arg)
                if inst is self.balancer and attr == "" and depth < 2 and containers and self._is_orchestration(callee):
                    # a helper that runs part of the stage sequence: its statements are stages of the pipeline
                    self.inlined.append(callee.qualname)
                    self._walk(callee, cenv, containers, depth + 1)
                    continue
                st = Stage(index=self._idx, call=call, stmt=stmt, callee=callee, inst=inst, attr=attr, params=params)
                st.stores = collect_row_stores(ctx, callee, cenv, containers, depth=3)
                st.env = cenv
                # subscript stores of the stage function that are not row
                # stores (DataFrame column assignments in preprocess)
                row_nodes = {id(x.node) for x in st.stores}
                for n in own_nodes(callee.node):
                    tv = []
                    if isinstance(n, ast.Assign):
                        tv = [(t, n.value, "assign") for t in n.targets]
                    elif isinstance(n, ast.AugAssign):
                        tv = [(n.target, n.value, "aug")]
                    for t, v, kind in tv:
                        if isinstance(t, ast.Subscript) and not isinstance(t.slice, ast.Slice) and id(n) not in row_nodes:
                            st.frame_stores.append(KeyStore(callee, n, t, ctx.ev.eval(t.slice, cenv), v, kind))
                if isinstance(stmt, ast.Assign) and any(isinstance(t, ast.Name) and t.id in rows_names for t in stmt.targets):
                    st.rows_rebound = True
                self.stages.append(st)
                self._idx += 1

    def stage_by_attr(self, attr: str, method: Optional[str] = None) -> List[Stage]:
        return [s for s in self.stages if s.attr == attr and (method is None or s.callee.name == method)]

    def describe(self) -> List[dict]:
        out = []
        for s in self.stages:
            out.append(
                {
                    "stage": s.index,
                    "call": s.label,
                    "where": s.where(),
                    "writes": sorted({"|".join(sorted(map(str, st.keytexts))) for st in s.stores}),
                }
            )
        return out


def _calls_in_stmt(stmt: ast.stmt) -> List[ast.Call]:
    calls = [n for n in ast.walk(stmt) if isinstance(n, ast.Call)]
    calls.sort(key=lambda c: (c.lineno, c.col_offset))
    # outermost calls only: drop calls that are arguments of another listed call
    return calls


# ---------------------------------------------------------------------------
# context propagation: parameter environments reached from the entry point
# ---------------------------------------------------------------------------


class ContextMap:
    """qualname -> list of Env reached from ``Balancer.rebalance`` with
    parameters bound at the call sites (context-sensitive, bounded)."""

    MAX_CTX = 6

    def __init__(self, ctx, roots=("synrbl.balancing.Balancer.rebalance",)):
        from .rows import _receiver_instance

        self.ctx = ctx
        self.envs: Dict[str, List[Env]] = {}
        self._keys: Dict[str, set] = {}
        work = []
        for r in roots:
            f = ctx.prog.func(r)
            env = Env(func=f, params={}, inst=ctx.balancer)
            denv = Env(func=f)
            for name, d in f.param_defaults().items():
                env.params[name] = ctx.ev.eval(d, denv)
            self._add(f, env, work)
        while work:
            f, env = work.pop()
            for n in own_nodes(f.node):
                if not isinstance(n, ast.Call):
                    continue
                for call, fn_expr in self._effective_calls(n):
                    tgt = ctx.res.resolve_callee(call, f) if fn_expr is None else ctx.res.resolve_value(fn_expr, f)
                    if not tgt:
                        continue
                    inst, skip_self, callee = None, False, None
                    if tgt[0] == "func" and tgt[1] in ctx.prog.functions:
                        callee = ctx.prog.functions[tgt[1]]
                        recv = None
                        fe = call.func if fn_expr is None else fn_expr
                        if callee.cls is not None and not callee.is_static and isinstance(fe, ast.Attribute):
                            skip_self = True
                            recv = fe.value
                            inst = _receiver_instance(ctx, recv, env, f)
                            if inst is None and isinstance(recv, ast.Name) and f.params and recv.id == f.params[0]:
                                inst = env.inst
                        elif callee.parent is not None:
                            inst = env.inst
                    elif tgt[0] == "class":
                        continue
                    if callee is None:
                        continue
                    params = ctx.ev.bind_call(callee, call, env, skip_self=skip_self)
                    if callee.parent is not None:
                        # closures see the enclosing bindings
                        merged = dict(env.params)
                        merged.update(params)
                        params = merged
                    cenv = Env(func=callee, params=params, inst=inst)
                    self._add(callee, cenv, work)

    @staticmethod
    def _effective_calls(n: ast.Call):
        """A call, plus the higher-order forms delayed(f)(args) and
        pool.apply_async(f, (args), kwargs)."""
        out = [(n, None)]
        if isinstance(n.func, ast.Call) and isinstance(n.func.func, ast.Name) and n.func.func.id == "delayed" and n.func.args:
            fake = ast.Call(func=n.func.args[0], args=n.args, keywords=n.keywords)
            ast.copy_location(fake, n)
            out = [(fake, n.func.args[0])]
        elif isinstance(n.func, ast.Attribute) and n.func.attr == "apply_async" and n.args:
            args = list(n.args[1].elts) if len(n.args) > 1 and isinstance(n.args[1], (ast.Tuple, ast.List)) else []
            fake = ast.Call(func=n.args[0], args=args, keywords=[])
            ast.copy_location(fake, n)
            out.append((fake, n.args[0]))
        return out

    def _add(self, f, env, work) -> None:
        key = repr(sorted((k, repr(sorted(map(repr, v)))) for k, v in env.params.items())) + (env.inst.origin if env.inst else "")
        ks = self._keys.setdefault(f.qualname, set())
        if key in ks or len(ks) >= self.MAX_CTX:
            return
        ks.add(key)
        self.envs.setdefault(f.qualname, []).append(env)
        work.append((f, env))

    def get(self, qualname: str) -> List[Env]:
        return self.envs.get(qualname, [])
