"""SMILES-text provenance (DESIGN.md 1.6).

A forward may-taint over local names, row fields and return values with the
labels

  T  carries the user's molecules (text derived from the reaction column or
     the reactants / products / new_reaction / curated_reaction fields)
  L  list of components (result of split("."))           } shape of the
  S  joined side string / reaction string                } tainted value
  E  passed through a *substring edit* (replace, re.sub, slicing, strip)

Operations applied to tainted values are classified (append / component /
substring-edit / predicate / respell); sinks are stores into a text field
of a row and returns.  The analysis is interprocedural over the package
(parameter taint is propagated from call sites, return taint from callee
summaries) and flow-insensitive inside a function.
"""

from __future__ import annotations

import ast
from dataclasses import dataclass, field
from typing import Dict, FrozenSet, List, Optional, Set, Tuple

from .model import Func, own_nodes, own_nodes_ordered, unparse
from .pipeline import ContextMap
from .values import Env, texts

Labels = FrozenSet[str]
NONE: Labels = frozenset()

TEXT_FIELDS = {"reactants", "products", "new_reaction", "curated_reaction"}
SEPARATORS = {".", ">>"}
EXEMPT_CALLEES = {
    # the two atom-map regexes are owned by C15
    "synrbl.SynUtils.chem_utils.remove_atom_mapping": "atom-map removal (C15)",
}
RESPELL = {"CanonSmiles", "MolToSmiles", "canon_smiles"}
EDIT_METHODS = {"replace", "strip", "lstrip", "rstrip", "translate", "removeprefix", "removesuffix", "sub", "subn", "zfill", "lower", "upper", "title"}
PRED_METHODS = {"count", "find", "index", "startswith", "endswith", "rfind", "search", "findall", "match", "fullmatch", "finditer"}


@dataclass
class Op:
    func: Func
    node: ast.AST
    klass: str  # append | component | substring-edit | predicate | respell | copy
    detail: str
    labels: Labels = NONE
    literal: Optional[str] = None  # marker literal involved

    def where(self) -> str:
        return self.func.loc(self.node)


@dataclass
class Sink:
    func: Func
    node: ast.AST
    key: str
    labels: Labels
    value: Optional[ast.AST] = None

    def where(self) -> str:
        return self.func.loc(self.node)


@dataclass
class Summary:
    ret: Dict[str, Labels] = field(default_factory=dict)  # param -> labels contributed to the return value
    ret_base: Labels = NONE  # labels of the return value independent of params


class TextFlow:
    """Whole-package analysis; run once per check."""

    def __init__(self, ctx, scope: Set[str]):
        self.ctx = ctx
        self.prog = ctx.prog
        self.scope = {q for q in scope if q in ctx.prog.functions and q.startswith("synrbl.")}
        self.cmap = ContextMap(ctx)
        self.text_keys = set(TEXT_FIELDS) | texts(ctx.balancer.get("__reaction_col")) | texts(ctx.balancer.get("__input_col"))
        self.param_taint: Dict[str, Dict[str, Labels]] = {q: {} for q in self.scope}
        self.ret_taint: Dict[str, Labels] = {q: NONE for q in self.scope}
        self.ops: Dict[Tuple[str, int, int, str], Op] = {}
        self.sinks: Dict[Tuple[str, int, int], Sink] = {}
        self._envs: Dict[str, Env] = {}
        self._run()

    # ------------------------------------------------------------------ env
    def env(self, f: Func) -> Env:
        if f.qualname in self._envs:
            return self._envs[f.qualname]
        ctx = self.ctx
        env = Env(func=f, params={})
        denv = Env(func=f)
        for name, d in f.param_defaults().items():
            env.params[name] = ctx.ev.eval(d, denv)
        ctxs = self.cmap.get(f.qualname)
        if ctxs:
            env = Env(func=f, params={}, inst=ctxs[0].inst)
            for c in ctxs:
                for k, v in c.params.items():
                    env.params[k] = env.params.get(k, frozenset()) | v
        self._envs[f.qualname] = env
        return env

    # ------------------------------------------------------------- fixpoint
    def _run(self) -> None:
        for _ in range(8):
            changed = False
            for q in sorted(self.scope):
                if self._analyse(self.prog.functions[q]):
                    changed = True
            if not changed:
                break

    def _analyse(self, f: Func) -> bool:
        changed = False
        env = self.env(f)
        names: Dict[str, Labels] = dict(self.param_taint[f.qualname])
        # closures see the enclosing function's tainted names
        if f.parent is not None and f.parent.qualname in getattr(self, "_names_cache", {}):
            for k, v in self._names_cache[f.parent.qualname].items():
                names.setdefault(k, v)
        field_labels: Dict[str, Labels] = {}

        def key_texts(e: ast.AST) -> Set[str]:
            return {t for t in texts(self.ctx.ev.eval(e, env)) if isinstance(t, str)}

        def lab(e: Optional[ast.AST]) -> Labels:
            if e is None:
                return NONE
            if isinstance(e, ast.Name):
                return names.get(e.id, NONE)
            if isinstance(e, ast.Constant):
                return NONE
            if isinstance(e, ast.Subscript):
                if isinstance(e.slice, ast.Slice):
                    base = lab(e.value)
                    if "T" in base and "L" not in base:
                        self._op(f, e, "substring-edit", "slice %s" % unparse(e)[:40], base)
                        return base | {"E:" + f.qualname}
                    if "T" in base and "L" in base and e.slice.lower is None and e.slice.upper is None and e.slice.step is None:
                        return base  # `parts[:]` is a copy of the whole list
                    if "T" in base and "L" in base:
                        # a sub-range of the list of components: the components outside it are left behind
                        self._op(f, e, "component-range", "slice %s" % unparse(e)[:40], base)
                        return base | {"D:" + f.qualname}
                    return base
                kt = key_texts(e.slice)
                if kt & self.text_keys:
                    out = frozenset({"T", "S"})
                    for k in kt & self.text_keys:
                        out |= field_labels.get(k, NONE)
                    return out
                base = lab(e.value)
                if "T" in base and "L" in base:
                    return (base - {"L"}) | {"S"}
                if "T" in base:
                    # indexing a string / tuple of strings
                    return base
                return NONE
            if isinstance(e, ast.Attribute):
                return NONE
            if isinstance(e, ast.JoinedStr):
                out = NONE
                for v in e.values:
                    if isinstance(v, ast.FormattedValue):
                        out |= lab(v.value)
                if "T" in out:
                    self._op(f, e, "append", "f-string", out)
                    return (out - {"L"}) | {"S"}
                return NONE
            if isinstance(e, ast.BinOp):
                l, r = lab(e.left), lab(e.right)
                out = l | r
                if "T" in out and isinstance(e.op, ast.Add):
                    self._op(f, e, "append", "+", out)
                    return out
                if "T" in out and isinstance(e.op, ast.Mod):
                    self._op(f, e, "append", "%-format", out)
                    return out
                if isinstance(e.op, ast.Mult):
                    return NONE
                return out if "T" in out else NONE
            if isinstance(e, ast.UnaryOp):
                lab(e.operand)
                return NONE
            if isinstance(e, ast.IfExp):
                self._classify_pred(f, e.test, lab, None)
                lab(e.test)
                return lab(e.body) | lab(e.orelse)
            if isinstance(e, ast.BoolOp):
                out = NONE
                for v in e.values:
                    out |= lab(v)
                return out
            if isinstance(e, (ast.List, ast.Tuple, ast.Set)):
                out = NONE
                for v in e.elts:
                    out |= lab(v)
                return (out | {"L"}) - {"S"} if "T" in out else NONE
            if isinstance(e, (ast.ListComp, ast.GeneratorExp, ast.SetComp)):
                # bind generator targets first
                for g in e.generators:
                    it = lab(g.iter)
                    if "T" in it:
                        for x in ast.walk(g.target):
                            if isinstance(x, ast.Name):
                                names[x.id] = names.get(x.id, NONE) | ((it - {"L"}) | {"S"} if "L" in it else it)
                    bad_filter = None
                    for cond in g.ifs:
                        self._classify_pred(f, cond, lab, None)
                        lab(cond)
                        if "T" in it and "L" in it and not _literal_component_test(cond, g.target):
                            bad_filter = cond
                    if bad_filter is not None:
                        # components of the user's text are dropped by a test that
                        # looks *inside* the component: counts as an edit of the text
                        self._op(f, e, "substring-edit", "component filter by %s" % unparse(bad_filter)[:50], it)
                        names["<filter>"] = frozenset({"E:" + f.qualname})
                out = lab(e.elt)
                extra = names.pop("<filter>", NONE)
                if "T" in out:
                    return ((out | {"L"}) - {"S"}) | extra
                return NONE
            if isinstance(e, ast.Compare):
                self._classify_pred(f, e, lab, None)
                return NONE
            if isinstance(e, ast.Call):
                return call(e)
            if isinstance(e, ast.Starred):
                return lab(e.value)
            return NONE

        def call(c: ast.Call) -> Labels:
            fn = c.func
            arglabs = [lab(a) for a in c.args] + [lab(k.value) for k in c.keywords]
            anyT = NONE
            for a in arglabs:
                anyT |= a
            if isinstance(fn, ast.Attribute):
                recv = lab(fn.value)
                m = fn.attr
                if "T" in recv:
                    if m in ("split", "rsplit"):
                        sep = c.args[0] if c.args else None
                        sepv = None
                        if isinstance(sep, ast.Constant):
                            sepv = sep.value
                        elif sep is not None:
                            st = key_texts(sep)
                            sepv = next(iter(st)) if len(st) == 1 else unparse(sep)
                        okc = sepv in SEPARATORS
                        self._op(f, c, "component" if okc else "substring-edit", "split(%r)" % (sepv,), recv, literal=sepv if isinstance(sepv, str) else None)
                        return (recv - {"S"}) | {"L"} | (NONE if okc else frozenset({"E:" + f.qualname}))
                    if m in ("copy", "keys", "values", "items", "encode"):
                        return recv
                    if m in EDIT_METHODS and "L" not in recv:
                        lit = c.args[0].value if c.args and isinstance(c.args[0], ast.Constant) and isinstance(c.args[0].value, str) else None
                        if m in ("strip", "lstrip", "rstrip") and not c.args:
                            # whitespace strip does not touch molecules
                            return recv
                        self._op(f, c, "substring-edit", "%s(%s)" % (m, ", ".join(unparse(a)[:20] for a in c.args)), recv, literal=lit)
                        return recv | {"E:" + f.qualname}
                    if m in PRED_METHODS:
                        lit = c.args[0].value if c.args and isinstance(c.args[0], ast.Constant) and isinstance(c.args[0].value, str) else None
                        if "L" in recv:
                            self._op(f, c, "component", "list.%s(%r)" % (m, lit), recv, literal=lit)
                        else:
                            self._op(f, c, "predicate", "str.%s(%r)" % (m, lit), recv, literal=lit)
                        return NONE
                    if m == "format":
                        self._op(f, c, "append", "format", recv | anyT)
                        return ((recv | anyT) - {"L"}) | {"S"}
                    if m == "get" and c.args:
                        return NONE
                    if m in ("append", "extend", "insert", "add", "remove", "pop", "sort", "reverse"):
                        if isinstance(fn.value, ast.Name) and "T" in anyT:
                            names[fn.value.id] = names.get(fn.value.id, NONE) | anyT | {"L"}
                        if m in ("remove", "pop", "sort", "reverse") and "L" in recv and "S" not in recv:
                            self._op(f, c, "component", "list.%s" % m, recv)
                        return NONE
                    return NONE
                # receiver untainted
                if m == "join" and c.args:
                    a = arglabs[0]
                    if "T" in a:
                        sep = fn.value.value if isinstance(fn.value, ast.Constant) else None
                        self._op(f, c, "append", "join(%r)" % (sep,), a, literal=sep if isinstance(sep, str) else None)
                        return (a - {"L"}) | {"S"}
                    return NONE
                if m == "format" and "T" in anyT:
                    self._op(f, c, "append", "format", anyT)
                    return (anyT - {"L"}) | {"S"}
                if m in ("sub", "subn") and "T" in anyT:
                    # pattern.sub(repl, s) / re.sub(p, r, s)
                    lit = None
                    self._op(f, c, "substring-edit", "regex %s" % unparse(c)[:50], anyT, literal=lit)
                    return anyT | {"E:" + f.qualname}
                if m in ("search", "findall", "match", "fullmatch", "finditer") and "T" in anyT:
                    self._op(f, c, "predicate", "regex %s(%s)" % (m, unparse(fn.value)[:30]), anyT)
                    return NONE
                if m in ("append", "extend") and isinstance(fn.value, ast.Name) and "T" in anyT:
                    names[fn.value.id] = names.get(fn.value.id, NONE) | (anyT - {"S"}) | {"L"}
                    return NONE
                if m in ("get",) and c.args:
                    kt = key_texts(c.args[0])
                    if kt & self.text_keys:
                        out = frozenset({"T", "S"})
                        for k in kt & self.text_keys:
                            out |= field_labels.get(k, NONE)
                        return out
                    return NONE
                if m in ("count",) and "T" in recv:
                    return NONE
            # resolved package callee
            tgt = self.ctx.res.resolve_callee(c, f)
            if tgt and tgt[0] == "func" and tgt[1] in self.scope:
                return self._call_package(f, c, tgt[1], lab)
            if tgt and tgt[0] == "class" and tgt[1] in self.prog.classes:
                init = self.prog.lookup_method(self.prog.classes[tgt[1]], "__init__")
                if init is not None and init.qualname in self.scope:
                    self._call_package(f, c, init.qualname, lab, ctor=True)
                return NONE
            name = unparse(fn).split(".")[-1]
            if name in RESPELL and "T" in anyT:
                self._op(f, c, "respell", name, anyT)
                return anyT
            if name in ("findall", "search", "match", "fullmatch") and "T" in anyT:
                self._op(f, c, "predicate", "re.%s" % name, anyT)
                return NONE
            if name in ("sub", "subn") and "T" in anyT:
                self._op(f, c, "substring-edit", "re.%s" % name, anyT)
                return anyT | {"E:" + f.qualname}
            if name in ("str", "list", "tuple", "sorted", "reversed", "set", "deepcopy", "copy", "enumerate", "zip", "iter") and "T" in anyT:
                if name in ("sorted", "reversed", "set") and "L" in anyT:
                    self._op(f, c, "component", name, anyT)
                return anyT
            return NONE

        # statements ------------------------------------------------------
        ordered = own_nodes_ordered(f.node)
        for _round in range(12):
            before = (dict(names), dict(field_labels))
            for n in ordered:
                if isinstance(n, ast.Assign):
                    v = lab(n.value)
                    for t in n.targets:
                        self._bind(f, t, v, names, field_labels, key_texts, n, n.value)
                elif isinstance(n, ast.AugAssign):
                    v = lab(n.value)
                    cur = lab(n.target)
                    if isinstance(n.op, ast.Add) and "T" in (v | cur):
                        self._op(f, n, "append", "+=", v | cur)
                    self._bind(f, n.target, v | cur, names, field_labels, key_texts, n, n.value)
                elif isinstance(n, ast.AnnAssign) and n.value is not None:
                    self._bind(f, n.target, lab(n.value), names, field_labels, key_texts, n, n.value)
                elif isinstance(n, (ast.For, ast.comprehension)):
                    it = lab(n.iter)
                    if "T" in it:
                        el = ((it - {"L"}) | {"S"}) if "L" in it else it
                        for x in ast.walk(n.target):
                            if isinstance(x, ast.Name):
                                names[x.id] = names.get(x.id, NONE) | el
                elif isinstance(n, ast.Return) and n.value is not None:
                    v = lab(n.value)
                    if v - self.ret_taint[f.qualname]:
                        self.ret_taint[f.qualname] = self.ret_taint[f.qualname] | v
                        changed = True
                elif isinstance(n, ast.Expr):
                    lab(n.value)
                elif isinstance(n, (ast.If, ast.While)):
                    self._classify_pred(f, n.test, lab, None)
                    lab(n.test)
                elif isinstance(n, ast.Assert):
                    lab(n.test)
            if (dict(names), dict(field_labels)) == before:
                break
        if not hasattr(self, "_names_cache"):
            self._names_cache = {}
        self._names_cache[f.qualname] = names
        if getattr(self, "_param_changed", False):
            changed = True
            self._param_changed = False
        return changed

    # -------------------------------------------------------------- helpers
    def _bind(self, f, target, v: Labels, names, field_labels, key_texts, stmt, value) -> None:
        if isinstance(target, ast.Name):
            if v - names.get(target.id, NONE):
                names[target.id] = names.get(target.id, NONE) | v
        elif isinstance(target, (ast.Tuple, ast.List)):
            for t in target.elts:
                el = ((v - {"L"}) | {"S"}) if "L" in v else v
                self._bind(f, t, el, names, field_labels, key_texts, stmt, value)
        elif isinstance(target, ast.Subscript) and not isinstance(target.slice, ast.Slice):
            kt = key_texts(target.slice) & self.text_keys
            for k in kt:
                if v - field_labels.get(k, NONE) - {"T", "S", "L"}:
                    field_labels[k] = field_labels.get(k, NONE) | (v - {"T", "S", "L"})
                key = (f.qualname, stmt.lineno, stmt.col_offset)
                self.sinks[key] = Sink(f, stmt, k, v, value)
        elif isinstance(target, ast.Starred):
            self._bind(f, target.value, v, names, field_labels, key_texts, stmt, value)

    def _op(self, f: Func, node: ast.AST, klass: str, detail: str, labels: Labels, literal: Optional[str] = None) -> None:
        key = (f.qualname, getattr(node, "lineno", 0), getattr(node, "col_offset", 0), klass)
        if key not in self.ops:
            self.ops[key] = Op(f, node, klass, detail, labels, literal)
        else:
            self.ops[key].labels = self.ops[key].labels | labels

    def _classify_pred(self, f: Func, cond: ast.AST, lab, force: Optional[str]) -> None:
        for c in ast.walk(cond):
            if isinstance(c, ast.Compare) and len(c.ops) == 1:
                l, r = c.left, c.comparators[0]
                ll, rl = lab(l), lab(r)
                op = c.ops[0]
                if isinstance(op, (ast.In, ast.NotIn)):
                    if "T" in rl:
                        lit = l.value if isinstance(l, ast.Constant) and isinstance(l.value, str) else None
                        if lit is None and isinstance(l, ast.Name):
                            cands = _literal_candidates(f, l.id)
                            if cands:
                                lit = "|".join(sorted(cands))
                        if "L" in rl:
                            self._op(f, c, "component", "in list (%r)" % (lit,), rl, literal=lit)
                        else:
                            self._op(f, c, "predicate", "substring test %r in <side string>" % (lit,), rl, literal=lit)
                    elif "T" in ll:
                        self._op(f, c, "component", "component in %s" % unparse(r)[:30], ll)
                    if "T" in ll and "T" in rl and not isinstance(l, ast.Constant):
                        # textual identity between two pieces of *given* text: two spellings of one molecule differ
                        self._op(f, c, "predicate", "identity of given text: %s" % unparse(c)[:50], ll | rl)
                elif isinstance(op, (ast.Eq, ast.NotEq)):
                    for a, al, b in ((l, ll, r), (r, rl, l)):
                        if "T" in al and isinstance(b, ast.Constant) and isinstance(b.value, str):
                            self._op(f, c, "component", "whole-value equality with %r" % b.value, al, literal=b.value)
                    if "T" in ll and "T" in rl and not isinstance(l, ast.Constant) and not isinstance(r, ast.Constant):
                        self._op(f, c, "predicate", "identity of given text: %s" % unparse(c)[:50], ll | rl)
                elif isinstance(op, (ast.Lt, ast.Gt, ast.LtE, ast.GtE)):
                    if "T" in (ll | rl):
                        self._op(f, c, "predicate", "ordering on text", ll | rl)
                # length of a SMILES string (not: number of components, not: emptiness)
                for a, b in ((l, r), (r, l)):
                    if isinstance(a, ast.Call) and isinstance(a.func, ast.Name) and a.func.id == "len" and a.args:
                        al = lab(a.args[0])
                        if "T" in al and "L" not in al and not (isinstance(b, ast.Constant) and b.value in (0, 1) ):
                            self._op(f, c, "predicate", "length of given text: %s" % unparse(c)[:50], al)

    def _call_package(self, f: Func, c: ast.Call, q: str, lab, ctor: bool = False) -> Labels:
        callee = self.prog.functions[q]
        if q in EXEMPT_CALLEES:
            out = NONE
            for a in list(c.args) + [k.value for k in c.keywords]:
                out |= lab(a)
            return out
        params = list(callee.params)
        skip = ctor or (callee.cls is not None and not callee.is_static and isinstance(c.func, ast.Attribute) and callee.parent is None)
        # delayed(Class.static)(...) style calls arrive with all params
        if skip and params:
            params = params[1:]
        pt = self.param_taint[q]
        for i, a in enumerate(c.args):
            if isinstance(a, ast.Starred) or i >= len(params):
                continue
            v = lab(a)
            if v - pt.get(params[i], NONE):
                pt[params[i]] = pt.get(params[i], NONE) | v
                self._param_changed = True
        for k in c.keywords:
            if k.arg and k.arg in callee.params + callee.kwonly:
                v = lab(k.value)
                if v - pt.get(k.arg, NONE):
                    pt[k.arg] = pt.get(k.arg, NONE) | v
                    self._param_changed = True
        return self.ret_taint.get(q, NONE)

    # ------------------------------------------------------------- queries
    @staticmethod
    def edit_origins(labels) -> Set[str]:
        return {l[2:] for l in labels if l.startswith("E:")}

    def all_ops(self) -> List[Op]:
        return sorted(self.ops.values(), key=lambda o: (o.func.qualname, o.node.lineno, getattr(o.node, "col_offset", 0)))

    def all_sinks(self) -> List[Sink]:
        return sorted(self.sinks.values(), key=lambda s: (s.func.qualname, s.node.lineno))

    def also_higher_order(self) -> None:
        pass


def _literal_candidates(f: Func, name: str) -> Set[str]:
    """String constants a loop variable can take when it iterates a local
    dict / list display (``for marker, label in criteria.items()``)."""
    out: Set[str] = set()
    for n in own_nodes(f.node):
        if isinstance(n, (ast.For, ast.comprehension)):
            tnames = [x.id for x in ast.walk(n.target) if isinstance(x, ast.Name)]
            if name not in tnames:
                continue
            it = n.iter
            src = None
            pos = 0
            if isinstance(it, ast.Call) and isinstance(it.func, ast.Attribute) and it.func.attr in ("items", "keys") and isinstance(it.func.value, ast.Name):
                src = it.func.value.id
                pos = tnames.index(name)
            elif isinstance(it, ast.Name):
                src = it.id
            if src is None:
                continue
            for a in own_nodes(f.node):
                if isinstance(a, ast.Assign) and any(isinstance(t, ast.Name) and t.id == src for t in a.targets):
                    v = a.value
                    if isinstance(v, ast.Dict) and pos == 0:
                        out |= {k.value for k in v.keys if isinstance(k, ast.Constant) and isinstance(k.value, str)}
                    elif isinstance(v, (ast.List, ast.Tuple, ast.Set)):
                        out |= {k.value for k in v.elts if isinstance(k, ast.Constant) and isinstance(k.value, str)}
    return out


def _literal_component_test(cond: ast.AST, target: ast.AST) -> bool:
    """``x == "lit"`` / ``x != "lit"`` / ``x in ("a", "b")`` / ``x not in [..]`` on the
    loop variable, truthiness of the loop variable, and boolean combinations
    of those."""
    tname = target.id if isinstance(target, ast.Name) else None
    if isinstance(cond, ast.BoolOp):
        return all(_literal_component_test(v, target) for v in cond.values)
    if isinstance(cond, ast.UnaryOp) and isinstance(cond.op, ast.Not):
        return _literal_component_test(cond.operand, target)
    if isinstance(cond, ast.Name):
        return cond.id == tname
    if isinstance(cond, ast.Compare) and len(cond.ops) == 1:
        l, r = cond.left, cond.comparators[0]
        op = cond.ops[0]

        def lits(e):
            if isinstance(e, ast.Constant) and isinstance(e.value, str):
                return True
            return isinstance(e, (ast.List, ast.Tuple, ast.Set)) and all(isinstance(x, ast.Constant) and isinstance(x.value, str) for x in e.elts)

        def is_t(e):
            return isinstance(e, ast.Name) and e.id == tname

        if isinstance(op, (ast.Eq, ast.NotEq)):
            return (is_t(l) and lits(r)) or (is_t(r) and lits(l))
        if isinstance(op, (ast.In, ast.NotIn)):
            return is_t(l) and (lits(r) or isinstance(r, ast.Name))
    return False
