"""Canonical forms for equivalent idioms.

The rules are written against one spelling of a construct.  Before analysis
every package function is rewritten into that spelling wherever an equivalent
idiom is used (the rewrite is analysed, never executed):

  G  named conditions       ``ok = <cond>`` used only as a condition (``if ok``, ``not ok``, ``ok and ..``) is
                            substituted into its uses
  H  row.update({..})       ``d.update({k1: v1, k2: v2})`` / ``d.update(k=v)`` becomes ``d[k1] = v1; d[k2] = v2``
  A  append loops           ``L = []; for x in it: [if c: continue] L.append(e)``  ->  ``L = [e for x in it if ..]``
                            (also ``extend`` -> nested generator; partition loops -> two comprehensions)
  E  dict-fill loops        ``D = {}; for x in it: D[k] = v``  ->  ``D = {k: v for x in it}``
  C  accumulation loops     ``n = 0; for x in it: n += e``  ->  ``n = sum(e for x in it)``
  B  verdict loops          ``for x in it: if c: return False`` + ``return True``  ->  ``return all(not c for x in it)``
                            (and the ``any`` dual)
  F  index loops            ``for i in range(len(A))`` / ``range(min(len(A), len(B)))`` / ``while i < n: ..; i += 1``
                            whose body reads ``A[i]`` (and ``B[i]``) -> ``for i, a in enumerate(A)`` /
                            ``for i, (a, b) in enumerate(zip(A, B))`` when ``i`` is otherwise unused: ``zip``

All passes require the pattern to be *closed*: the collected name is not used
between its initialisation and the loop, the loop has no ``else`` / ``break``,
conditions and element expressions do not mention the collected name.
"""

from __future__ import annotations

import ast
import copy
from typing import Dict, List, Optional, Tuple

from .model import Func, clone, own_nodes, set_parents, unparse


def _names(e: ast.AST) -> set:
    return {n.id for n in ast.walk(e) if isinstance(n, ast.Name)}


def _neg(c: ast.AST) -> ast.AST:
    if isinstance(c, ast.UnaryOp) and isinstance(c.op, ast.Not):
        return c.operand
    if isinstance(c, ast.Compare) and len(c.ops) == 1:
        flip = {ast.Eq: ast.NotEq, ast.NotEq: ast.Eq, ast.Lt: ast.GtE, ast.GtE: ast.Lt, ast.Gt: ast.LtE, ast.LtE: ast.Gt, ast.In: ast.NotIn, ast.NotIn: ast.In, ast.Is: ast.IsNot, ast.IsNot: ast.Is}
        t = type(c.ops[0])
        # ordering comparisons are not flipped (NaN); == / != / in / is are exact complements
        if t in (ast.Eq, ast.NotEq, ast.In, ast.NotIn, ast.Is, ast.IsNot):
            return ast.copy_location(ast.Compare(left=c.left, ops=[flip[t]()], comparators=c.comparators), c)
    return ast.copy_location(ast.UnaryOp(op=ast.Not(), operand=c), c)


def _and(conds: List[ast.AST]) -> Optional[ast.AST]:
    conds = [c for c in conds if c is not None]
    if not conds:
        return None
    if len(conds) == 1:
        return conds[0]
    return ast.copy_location(ast.BoolOp(op=ast.And(), values=conds), conds[0])


class Canon:
    def __init__(self, f: Func):
        self.f = f
        self.changed = False

    # ------------------------------------------------------------------ driver
    def run(self) -> bool:
        for _ in range(4):
            before = self.changed
            self.changed = False
            self._pass_split_tuple_assign()
            self._pass_counter_of_generator()
            self._pass_update_calls()
            self._pass_named_conditions()
            self._walk_blocks(self.f.node)
            self._pass_index_loops()
            self._pass_loop_headers()
            self._pass_conditional_assign()
            self._pass_aliases()
            if self.changed:
                ast.fix_missing_locations(self.f.node)
                set_parents(self.f.node)
            again = self.changed
            self.changed = before or self.changed
            if not again:
                break
        return self.changed

    def _blocks(self, root):
        for parent in ast.walk(root):
            if isinstance(parent, (ast.FunctionDef, ast.AsyncFunctionDef, ast.ClassDef, ast.Lambda)) and parent is not root:
                continue
            for fld in ("body", "orelse", "finalbody"):
                lst = getattr(parent, fld, None)
                if isinstance(lst, list) and lst and isinstance(lst[0], ast.stmt):
                    yield parent, fld, lst
            if isinstance(parent, ast.Try):
                for h in parent.handlers:
                    yield h, "body", h.body

    def _own(self):
        return list(own_nodes(self.f.node))

    # -------------------------------------------------------------------- T
    def _pass_split_tuple_assign(self) -> None:
        """`a, b = x, y` -> `a = x; b = y` when no target name occurs on the right-hand side (not a swap)"""
        for parent, fld, lst in list(self._blocks(self.f.node)):
            i = 0
            while i < len(lst):
                s = lst[i]
                if (
                    isinstance(s, ast.Assign)
                    and len(s.targets) == 1
                    and isinstance(s.targets[0], (ast.Tuple, ast.List))
                    and isinstance(s.value, (ast.Tuple, ast.List))
                    and len(s.targets[0].elts) == len(s.value.elts)
                    and all(isinstance(t, ast.Name) for t in s.targets[0].elts)
                    and not any(isinstance(v, ast.Starred) for v in s.value.elts)
                ):
                    tnames = {t.id for t in s.targets[0].elts}
                    rnames = {n.id for v in s.value.elts for n in ast.walk(v) if isinstance(n, ast.Name)}
                    if not (tnames & rnames) and len(tnames) == len(s.targets[0].elts):
                        new = [ast.copy_location(ast.Assign(targets=[ast.Name(id=t.id, ctx=ast.Store())], value=v), s) for t, v in zip(s.targets[0].elts, s.value.elts)]
                        lst[i : i + 1] = new
                        self.changed = True
                        i += len(new)
                        continue
                # `a, b = (x1, y1) if c else (x2, y2)` with a call-free test -> one conditional per target
                if (
                    isinstance(s, ast.Assign)
                    and len(s.targets) == 1
                    and isinstance(s.targets[0], (ast.Tuple, ast.List))
                    and isinstance(s.value, ast.IfExp)
                    and all(isinstance(b, (ast.Tuple, ast.List)) and len(b.elts) == len(s.targets[0].elts) and not any(isinstance(v, ast.Starred) for v in b.elts) for b in (s.value.body, s.value.orelse))
                    and all(isinstance(t, ast.Name) for t in s.targets[0].elts)
                    and not any(isinstance(x, (ast.Call, ast.NamedExpr, ast.Await)) for x in ast.walk(s.value.test))
                ):
                    tnames = {t.id for t in s.targets[0].elts}
                    rnames = {n.id for n in ast.walk(s.value) if isinstance(n, ast.Name)}
                    if not (tnames & rnames) and len(tnames) == len(s.targets[0].elts):
                        new = []
                        for k, t in enumerate(s.targets[0].elts):
                            val = ast.IfExp(test=copy.deepcopy(s.value.test), body=s.value.body.elts[k], orelse=s.value.orelse.elts[k])
                            new.append(ast.copy_location(ast.Assign(targets=[ast.Name(id=t.id, ctx=ast.Store())], value=ast.copy_location(val, s.value)), s))
                        for x in new:
                            ast.fix_missing_locations(x)
                        lst[i : i + 1] = new
                        self.changed = True
                        i += len(new)
                        continue
                i += 1

    # -------------------------------------------------------------------- K
    def _pass_counter_of_generator(self) -> None:
        """`c = Counter(<elt> for x in it [if cond])` -> `c = Counter()` + the counting loop `c[<elt>] += 1`
        (the loop is the form the counting rules are written against)"""
        for parent, fld, lst in list(self._blocks(self.f.node)):
            i = 0
            while i < len(lst):
                s = lst[i]
                v = s.value if isinstance(s, ast.Assign) and len(s.targets) == 1 and isinstance(s.targets[0], ast.Name) else None
                if (
                    isinstance(v, ast.Call)
                    and unparse(v.func).split(".")[-1] == "Counter"
                    and len(v.args) == 1
                    and not v.keywords
                    and isinstance(v.args[0], (ast.GeneratorExp, ast.ListComp))
                    and len(v.args[0].generators) == 1
                    and not v.args[0].generators[0].is_async
                ):
                    gen = v.args[0].generators[0]
                    name = s.targets[0].id
                    init = ast.copy_location(ast.Assign(targets=[ast.Name(id=name, ctx=ast.Store())], value=ast.Call(func=v.func, args=[], keywords=[])), s)
                    inc = ast.AugAssign(target=ast.Subscript(value=ast.Name(id=name, ctx=ast.Load()), slice=v.args[0].elt, ctx=ast.Store()), op=ast.Add(), value=ast.Constant(value=1))
                    body = [inc]
                    for c in reversed(gen.ifs):
                        body = [ast.If(test=c, body=body, orelse=[])]
                    loop = ast.For(target=gen.target, iter=gen.iter, body=body, orelse=[])
                    for t in ast.walk(loop.target):
                        if isinstance(t, (ast.Name, ast.Tuple, ast.List)):
                            t.ctx = ast.Store()
                    ast.copy_location(loop, s)
                    for x in ast.walk(loop):
                        if not hasattr(x, "lineno") and isinstance(x, (ast.stmt, ast.expr)):
                            ast.copy_location(x, s)
                    lst[i : i + 1] = [init, loop]
                    self.changed = True
                    i += 2
                    continue
                i += 1

    # -------------------------------------------------------------------- H
    def _pass_update_calls(self) -> None:
        for parent, fld, lst in list(self._blocks(self.f.node)):
            i = 0
            while i < len(lst):
                s = lst[i]
                if isinstance(s, ast.Expr) and isinstance(s.value, ast.Call) and isinstance(s.value.func, ast.Attribute) and s.value.func.attr == "update" and isinstance(s.value.func.value, (ast.Name, ast.Subscript, ast.Attribute)):
                    c = s.value
                    pairs = None
                    if len(c.args) == 1 and not c.keywords and isinstance(c.args[0], ast.Dict) and all(k is not None for k in c.args[0].keys) and c.args[0].keys:
                        pairs = list(zip(c.args[0].keys, c.args[0].values))
                    elif not c.args and c.keywords and all(k.arg for k in c.keywords):
                        pairs = [(ast.Constant(value=k.arg), k.value) for k in c.keywords]
                    if pairs:
                        new = []
                        for k, v in pairs:
                            a = ast.Assign(targets=[ast.Subscript(value=clone(c.func.value), slice=k, ctx=ast.Store())], value=v)
                            ast.copy_location(a, s)
                            ast.fix_missing_locations(a)
                            new.append(a)
                        lst[i:i + 1] = new
                        i += len(new)
                        self.changed = True
                        continue
                i += 1

    # -------------------------------------------------------------------- G
    def _pass_named_conditions(self) -> None:
        set_parents(self.f.node)
        nodes = self._own()
        assigns: Dict[str, List[ast.Assign]] = {}
        for n in nodes:
            if isinstance(n, ast.Assign) and len(n.targets) == 1 and isinstance(n.targets[0], ast.Name):
                assigns.setdefault(n.targets[0].id, []).append(n)
            elif isinstance(n, ast.Name) and isinstance(n.ctx, ast.Store):
                par = getattr(n, "_parent", None)
                if not (isinstance(par, ast.Assign) and len(par.targets) == 1 and par.targets[0] is n):
                    assigns.setdefault(n.id, []).append(None)  # bound some other way
        for name, defs in assigns.items():
            if len(defs) != 1 or defs[0] is None or name in self.f.params:
                continue
            d = defs[0]
            v = d.value
            if not isinstance(v, (ast.Compare, ast.BoolOp)) and not (isinstance(v, ast.UnaryOp) and isinstance(v.op, ast.Not)):
                continue
            if any(isinstance(x, (ast.Call, ast.Await, ast.NamedExpr)) and not (isinstance(x, ast.Call) and isinstance(x.func, ast.Name) and x.func.id in ("len", "isinstance")) and not (isinstance(x, ast.Call) and isinstance(x.func, ast.Attribute) and x.func.attr in ("keys", "get")) for x in ast.walk(v)):
                continue
            uses = [x for x in nodes if isinstance(x, ast.Name) and x.id == name and isinstance(x.ctx, ast.Load)]
            if not uses:
                continue

            def cond_pos(u):
                p = getattr(u, "_parent", None)
                while isinstance(p, (ast.BoolOp, ast.UnaryOp)):
                    u, p = p, getattr(p, "_parent", None)
                return (isinstance(p, (ast.If, ast.While, ast.IfExp, ast.Assert)) and p.test is u) or (isinstance(p, ast.comprehension) and u in p.ifs)

            if not all(cond_pos(u) for u in uses):
                continue
            # the operands must not be re-bound between the definition and the uses: require that every name the
            # condition mentions is assigned at most once in the function (or is a parameter / loop variable that
            # is not re-bound after the definition line)
            ok = True
            for m in _names(v):
                stores = [x for x in nodes if isinstance(x, ast.Name) and x.id == m and isinstance(x.ctx, ast.Store)]
                if any(getattr(x, "lineno", 0) > d.lineno for x in stores) and any(getattr(u, "lineno", 0) > min(getattr(x, "lineno", 0) for x in stores if getattr(x, "lineno", 0) > d.lineno) for u in uses):
                    ok = False
            # a row store between definition and use could change what a subscript in the condition reads
            subs = {unparse(x.value) for x in ast.walk(v) if isinstance(x, ast.Subscript)}
            last_use = max(getattr(u, "lineno", 0) for u in uses)
            for x in nodes:
                if isinstance(x, ast.Subscript) and isinstance(x.ctx, (ast.Store, ast.Del)) and unparse(x.value) in subs and d.lineno < getattr(x, "lineno", 0) < last_use:
                    ok = False
            if not ok:
                continue
            for u in uses:
                self._replace(u, clone(v))
            self._remove(d)
            self.changed = True
            set_parents(self.f.node)
            nodes = self._own()

    # ------------------------------------------------------------ A, E, C, B
    def _walk_blocks(self, root) -> None:
        for parent, fld, lst in list(self._blocks(root)):
            self._collect_loops(lst)
            self._verdict_loops(lst)

    def _loop_shape(self, loop: ast.For):
        """-> list of (generators [(target, iter)], conds, stmt) for the innermost statements, or None"""
        if loop.orelse:
            return None
        gens = [(loop.target, loop.iter)]
        conds: List[ast.AST] = []
        body = loop.body
        while True:
            # leading `if c: continue` guards
            while body and isinstance(body[0], ast.If) and not body[0].orelse and len(body[0].body) == 1 and isinstance(body[0].body[0], ast.Continue) and len(body) > 1:
                conds.append(_neg(body[0].test))
                body = body[1:]
            if len(body) == 1 and isinstance(body[0], ast.If) and not body[0].orelse:
                conds.append(body[0].test)
                body = body[0].body
                continue
            if len(body) == 1 and isinstance(body[0], ast.For) and not body[0].orelse and not conds[len(conds):]:
                # nested loop: only when no condition sits between the loops' generators is the order preserved trivially
                gens.append((body[0].target, body[0].iter))
                gens_conds_split = len(conds)
                body = body[0].body
                continue
            break
        return gens, conds, body

    def _collect_loops(self, lst: List[ast.stmt]) -> None:
        i = 0
        while i < len(lst):
            s = lst[i]
            if not isinstance(s, ast.For):
                i += 1
                continue
            shape = self._loop_shape(s)
            if shape is None:
                i += 1
                continue
            gens, conds, body = shape
            if any(isinstance(x, (ast.Break, ast.Continue, ast.Return, ast.Yield, ast.YieldFrom)) for b in body for x in ast.walk(b)):
                i += 1
                continue
            target_names = set()
            for t, _it in gens:
                target_names |= _names(t)
            # which collectors does the innermost body feed?
            plan = self._collector_plan(body, gens, conds)
            if plan is None:
                i += 1
                continue
            # every collector must be initialised before the loop in this block with nothing using it in between
            new_stmts = []
            ok = True
            inits = {}
            for name, kind, make in plan:
                init_idx = None
                for j in range(i - 1, -1, -1):
                    t = lst[j]
                    if isinstance(t, ast.Assign) and len(t.targets) == 1 and isinstance(t.targets[0], ast.Name) and t.targets[0].id == name:
                        init_idx = j
                        break
                    if name in _names(t):
                        break
                if init_idx is None:
                    ok = False
                    break
                init = lst[init_idx].value
                good = (kind == "list" and isinstance(init, ast.List) and not init.elts) or (kind == "dict" and ((isinstance(init, ast.Dict) and not init.keys) or (isinstance(init, ast.Call) and getattr(init.func, "id", "") == "dict" and not init.args and not init.keywords))) or (kind == "sum" and isinstance(init, ast.Constant) and init.value == 0 and not isinstance(init.value, bool))
                if not good:
                    ok = False
                    break
                inits[name] = init_idx
            if not ok:
                i += 1
                continue
            # loop variables must not be used after the loop in this block (they would be unbound after the rewrite)
            if self._live_after(target_names, lst[i + 1:]):
                i += 1
                continue
            for name, kind, make in plan:
                st = ast.Assign(targets=[ast.Name(id=name, ctx=ast.Store())], value=make())
                ast.copy_location(st, s)
                ast.fix_missing_locations(st)
                new_stmts.append(st)
            drop = sorted(inits.values(), reverse=True)
            lst[i:i + 1] = new_stmts
            for j in drop:
                del lst[j]
            i = i - len(drop) + len(new_stmts)
            self.changed = True

    def _collector_plan(self, body: List[ast.stmt], gens, conds):
        """what the innermost body does, as [(collector name, kind, builder)] - or None if it is anything else"""
        def comp_gens(extra_conds):
            out = []
            allc = list(conds) + list(extra_conds)
            for k, (t, it) in enumerate(gens):
                ifs = []
                if k == len(gens) - 1:
                    c = _and([clone(x) for x in allc])
                    ifs = [c] if c is not None else []
                out.append(ast.comprehension(target=clone(t), iter=clone(it), ifs=ifs, is_async=0))
            return out

        tn = set()
        for t, _ in gens:
            tn |= _names(t)

        def one(st, extra):
            # L.append(e) / L.extend(e)
            if isinstance(st, ast.Expr) and isinstance(st.value, ast.Call) and isinstance(st.value.func, ast.Attribute) and isinstance(st.value.func.value, ast.Name) and len(st.value.args) == 1 and not st.value.keywords:
                name, m, e = st.value.func.value.id, st.value.func.attr, st.value.args[0]
                if name in _names(e) or name in tn or any(name in _names(c) for c in list(conds) + list(extra)):
                    return None
                if m == "append":
                    return (name, "list", lambda e=e, extra=extra: ast.ListComp(elt=clone(e), generators=comp_gens(extra)))
                if m == "extend":
                    def mk(e=e, extra=extra):
                        g = comp_gens(extra)
                        g.append(ast.comprehension(target=ast.Name(id="_y", ctx=ast.Store()), iter=clone(e), ifs=[], is_async=0))
                        return ast.ListComp(elt=ast.Name(id="_y", ctx=ast.Load()), generators=g)
                    return (name, "list", mk)
                return None
            # D[k] = v
            if isinstance(st, ast.Assign) and len(st.targets) == 1 and isinstance(st.targets[0], ast.Subscript) and isinstance(st.targets[0].value, ast.Name) and not isinstance(st.targets[0].slice, ast.Slice):
                name, k, v = st.targets[0].value.id, st.targets[0].slice, st.value
                if name in _names(k) | _names(v) or name in tn or not (_names(k) & tn) or any(name in _names(c) for c in list(conds) + list(extra)):
                    return None
                return (name, "dict", lambda k=k, v=v, extra=extra: ast.DictComp(key=clone(k), value=clone(v), generators=comp_gens(extra)))
            # n += e
            if isinstance(st, ast.AugAssign) and isinstance(st.op, ast.Add) and isinstance(st.target, ast.Name):
                name, e = st.target.id, st.value
                if name in _names(e) or name in tn or any(name in _names(c) for c in list(conds) + list(extra)):
                    return None
                return (name, "sum", lambda e=e, extra=extra: ast.Call(func=ast.Name(id="sum", ctx=ast.Load()), args=[ast.GeneratorExp(elt=clone(e), generators=comp_gens(extra))], keywords=[]))
            return None

        if len(body) == 1 and isinstance(body[0], ast.If) and body[0].orelse and len(body[0].body) == 1 and len(body[0].orelse) == 1:
            b0, b1 = body[0].body[0], body[0].orelse[0]

            def app(st):
                if isinstance(st, ast.Expr) and isinstance(st.value, ast.Call) and isinstance(st.value.func, ast.Attribute) and st.value.func.attr == "append" and isinstance(st.value.func.value, ast.Name) and len(st.value.args) == 1:
                    return st.value.func.value.id, st.value.args[0]
                return None

            a0, a1 = app(b0), app(b1)
            if a0 and a1 and a0[0] == a1[0]:
                # if c: L.append(x) else: L.append(y)   ==   L.append(x if c else y)
                merged = ast.Expr(value=ast.Call(func=ast.Attribute(value=ast.Name(id=a0[0], ctx=ast.Load()), attr="append", ctx=ast.Load()), args=[ast.IfExp(test=body[0].test, body=a0[1], orelse=a1[1])], keywords=[]))
                ast.copy_location(merged, body[0])
                ast.fix_missing_locations(merged)
                p_ = one(merged, [])
                return [p_] if p_ else None
            # partition: if c: A.append(x) else: B.append(y)
            a = one(body[0].body[0], [body[0].test])
            b = one(body[0].orelse[0], [_neg(body[0].test)])
            if a and b and a[0] != b[0] and a[1] == "list" and b[1] == "list":
                return [a, b]
            return None
        plan = []
        seen = set()
        for st in body:
            p = one(st, [])
            if p is None or p[0] in seen:
                return None
            seen.add(p[0])
            plan.append(p)
        # several collectors fed by one loop: element expressions must not depend on another collector
        if len(plan) > 1 and any(p[1] == "sum" for p in plan) and len(plan) > 2:
            return None
        return plan or None

    def _verdict_loops(self, lst: List[ast.stmt]) -> None:
        for i in range(len(lst) - 1):
            s, nxt = lst[i], lst[i + 1]
            if not (isinstance(s, ast.For) and not s.orelse and isinstance(nxt, ast.Return) and isinstance(nxt.value, ast.Constant) and isinstance(nxt.value.value, bool)):
                continue
            final = nxt.value.value
            guards: List[ast.AST] = []   # from `if c: continue`
            triggers: List[ast.AST] = []  # from `if c: return <not final>`
            ok = True

            def scan(body, prefix):
                nonlocal ok
                for st in body:
                    if isinstance(st, ast.If) and not st.orelse and len(st.body) == 1 and isinstance(st.body[0], ast.Continue):
                        if triggers:
                            ok = False  # a guard after a trigger: order matters, keep the loop
                        guards.append(_and(prefix + [st.test]) if prefix else st.test)
                    elif isinstance(st, ast.If) and not st.orelse and len(st.body) == 1 and isinstance(st.body[0], ast.Return) and isinstance(st.body[0].value, ast.Constant) and st.body[0].value.value is (not final):
                        triggers.append(_and(prefix + [st.test]) if prefix else st.test)
                    elif isinstance(st, ast.If) and not st.orelse:
                        scan(st.body, prefix + [st.test])
                    else:
                        ok = False

            scan(s.body, [])
            if not ok or not triggers:
                continue
            filt = _and([_neg(clone(g)) for g in guards])
            gen = ast.comprehension(target=clone(s.target), iter=clone(s.iter), ifs=[filt] if filt is not None else [], is_async=0)
            if final is True:
                elt = _and([_neg(clone(t)) for t in triggers])
                call = ast.Call(func=ast.Name(id="all", ctx=ast.Load()), args=[ast.GeneratorExp(elt=elt, generators=[gen])], keywords=[])
            else:
                elt = triggers[0] if len(triggers) == 1 else ast.BoolOp(op=ast.Or(), values=[clone(t) for t in triggers])
                call = ast.Call(func=ast.Name(id="any", ctx=ast.Load()), args=[ast.GeneratorExp(elt=clone(elt), generators=[gen])], keywords=[])
            ret = ast.Return(value=call)
            ast.copy_location(ret, s)
            ast.fix_missing_locations(ret)
            lst[i:i + 2] = [ret]
            self.changed = True
            return

    # -------------------------------------------------------------------- Q
    def _pass_conditional_assign(self) -> None:
        """`if c: x = a else: x = b`  ->  `x = a if c else b`   (elif chains nest)"""
        def as_expr(st_list, name):
            if len(st_list) != 1:
                return None
            st = st_list[0]
            if isinstance(st, ast.Assign) and len(st.targets) == 1 and isinstance(st.targets[0], ast.Name) and st.targets[0].id == name and not any(isinstance(x, (ast.Call, ast.Yield, ast.Await, ast.NamedExpr)) for x in ast.walk(st.value)):
                return st.value
            if isinstance(st, ast.If) and st.orelse:
                a, b = as_expr(st.body, name), as_expr(st.orelse, name)
                if a is not None and b is not None:
                    return ast.copy_location(ast.IfExp(test=st.test, body=a, orelse=b), st)
            return None

        for parent, fld, lst in list(self._blocks(self.f.node)):
            for i, st in enumerate(lst):
                if isinstance(st, ast.If) and st.orelse and len(st.body) == 1 and isinstance(st.body[0], ast.Assign) and len(st.body[0].targets) == 1 and isinstance(st.body[0].targets[0], ast.Name):
                    name = st.body[0].targets[0].id
                    if name in _names(st.test):
                        continue
                    e = as_expr([st], name)
                    if e is not None:
                        new = ast.Assign(targets=[ast.Name(id=name, ctx=ast.Store())], value=e)
                        ast.copy_location(new, st)
                        ast.fix_missing_locations(new)
                        lst[i] = new
                        self.changed = True

    # -------------------------------------------------------------------- O, P
    def _pass_aliases(self) -> None:
        """O: `c = rule['Composition']` (pure read of a parameter's field, bound once) is substituted into its uses;
        P: a comprehension bound once and used once is substituted into that use"""
        set_parents(self.f.node)
        nodes = self._own()
        stores: Dict[str, int] = {}
        for n in nodes:
            if isinstance(n, ast.Name) and isinstance(n.ctx, (ast.Store, ast.Del)):
                stores[n.id] = stores.get(n.id, 0) + 1
        for d in [n for n in nodes if isinstance(n, ast.Assign) and len(n.targets) == 1 and isinstance(n.targets[0], ast.Name)]:
            name, v = d.targets[0].id, d.value
            if stores.get(name, 0) != 1 or name in self.f.params:
                continue
            uses = [x for x in nodes if isinstance(x, ast.Name) and x.id == name and isinstance(x.ctx, ast.Load)]
            if not uses or any(getattr(u, "lineno", 0) < d.lineno for u in uses):
                continue
            # O: p[const] / p.attr chains of a parameter that is never re-bound; the field itself is not stored to
            base = v
            pure = True
            while isinstance(base, (ast.Subscript, ast.Attribute)):
                if isinstance(base, ast.Subscript) and not isinstance(base.slice, ast.Constant):
                    pure = False
                base = base.value
            if pure and isinstance(v, ast.Subscript) and isinstance(base, ast.Name) and base.id in self.f.params and stores.get(base.id, 0) == 0 and base.id != (self.f.params[0] if self.f.cls is not None and not self.f.is_static else None):
                txt = unparse(v)
                written = any(isinstance(x, ast.Subscript) and isinstance(x.ctx, (ast.Store, ast.Del)) and unparse(x) == txt for x in nodes)
                alias_written = any(isinstance(x, (ast.Subscript, ast.Attribute)) and isinstance(x.ctx, (ast.Store, ast.Del)) and isinstance(x.value, ast.Name) and x.value.id == name for x in nodes)
                mutated = any(isinstance(x, ast.Call) and isinstance(x.func, ast.Attribute) and isinstance(x.func.value, ast.Name) and x.func.value.id == name and x.func.attr in ("append", "extend", "update", "pop", "clear", "remove", "insert", "setdefault", "sort") for x in nodes)
                if not written and not alias_written and not mutated and len(uses) <= 6:
                    for u in uses:
                        self._replace(u, clone(v))
                    self._remove(d)
                    self.changed = True
                    set_parents(self.f.node)
                    return self._pass_aliases()
            # P: single-use comprehension
            if isinstance(v, (ast.ListComp, ast.GeneratorExp)) and len(uses) == 1:
                u = uses[0]
                par = getattr(u, "_parent", None)
                if isinstance(par, ast.Call) and par.args and par.args[0] is u and isinstance(par.func, ast.Name) and par.func.id in ("min", "max", "sum", "all", "any", "sorted", "list", "tuple", "set", "len"):
                    # the use must follow in the same block with nothing in between that re-binds what the comprehension reads
                    dblk = ublk = None
                    for parent, fld, lst in self._blocks(self.f.node):
                        if d in lst:
                            dblk = lst
                        for st in lst:
                            if any(x is u for x in ast.walk(st)) and not isinstance(st, (ast.For, ast.While, ast.If, ast.Try, ast.With)):
                                ublk = (lst, st)
                    if dblk is not None and ublk is not None and ublk[0] is dblk:
                        i0, i1 = dblk.index(d), dblk.index(ublk[1])
                        reads = _names(v)
                        clash = any(isinstance(x, ast.Name) and isinstance(x.ctx, ast.Store) and x.id in reads for st in dblk[i0 + 1:i1] for x in ast.walk(st))
                        if i1 > i0 and not clash:
                            new = clone(v)
                            if isinstance(new, ast.ListComp) and par.func.id in ("min", "max", "sum", "all", "any") and len(par.args) == 1:
                                new = ast.copy_location(ast.GeneratorExp(elt=new.elt, generators=new.generators), new)
                            self._replace(u, new)
                            self._remove(d)
                            self.changed = True
                            set_parents(self.f.node)
                            return self._pass_aliases()

    # -------------------------------------------------------------------- L, M
    def _pass_loop_headers(self) -> None:
        """`pairs = list(zip(a, b)); for p in pairs: x, y = p; ...`  ->  `for x, y in zip(a, b): ...`"""
        set_parents(self.f.node)
        nodes = self._own()
        for loop in [n for n in nodes if isinstance(n, ast.For)]:
            # M: iterate the single-use local's definition directly
            if isinstance(loop.iter, ast.Name):
                nm = loop.iter.id
                defs = [n for n in nodes if isinstance(n, ast.Assign) and len(n.targets) == 1 and isinstance(n.targets[0], ast.Name) and n.targets[0].id == nm]
                uses = [n for n in nodes if isinstance(n, ast.Name) and n.id == nm and isinstance(n.ctx, ast.Load)]
                if len(defs) == 1 and len(uses) == 1 and nm not in self.f.params:
                    v = defs[0].value
                    inner = v.args[0] if isinstance(v, ast.Call) and getattr(v.func, "id", "") in ("list", "tuple") and len(v.args) == 1 and not v.keywords else None
                    if inner is not None and isinstance(inner, ast.Call) and getattr(inner.func, "id", "") in ("zip", "enumerate"):
                        # nothing between the definition and the loop may change the zipped sequences: same block, adjacent or
                        # separated only by statements that do not mention them
                        loop.iter = inner
                        self._remove(defs[0])
                        self.changed = True
                        set_parents(self.f.node)
                        nodes = self._own()
            # L: unpacking of the loop variable as first statement
            if isinstance(loop.target, ast.Name) and loop.body and isinstance(loop.body[0], ast.Assign) and len(loop.body[0].targets) == 1 and isinstance(loop.body[0].targets[0], (ast.Tuple, ast.List)) and isinstance(loop.body[0].value, ast.Name) and loop.body[0].value.id == loop.target.id and len(loop.body) > 1:
                item = loop.target.id
                if not any(isinstance(n, ast.Name) and n.id == item for b in loop.body[1:] for n in ast.walk(b)) and all(isinstance(x, ast.Name) for x in loop.body[0].targets[0].elts):
                    loop.target = ast.Tuple(elts=[ast.Name(id=x.id, ctx=ast.Store()) for x in loop.body[0].targets[0].elts], ctx=ast.Store())
                    ast.copy_location(loop.target, loop)
                    del loop.body[0]
                    self.changed = True
                    set_parents(self.f.node)

    # -------------------------------------------------------------------- F
    def _pass_index_loops(self) -> None:
        set_parents(self.f.node)
        for parent, fld, lst in list(self._blocks(self.f.node)):
            for i, s in enumerate(list(lst)):
                if isinstance(s, ast.While):
                    new = self._while_to_for(lst, i)
                    if new:
                        self.changed = True
                        return self._pass_index_loops()
            for i, s in enumerate(lst):
                if isinstance(s, ast.For) and isinstance(s.target, ast.Name) and isinstance(s.iter, ast.Call) and getattr(s.iter.func, "id", "") == "range" and len(s.iter.args) == 1:
                    if self._range_to_zip(s):
                        self.changed = True

    def _seqs_of_bound(self, bound: ast.AST) -> Optional[List[str]]:
        """len(A) -> [A];  min(len(A), len(B)) -> [A, B]"""
        def ln(e):
            if isinstance(e, ast.Call) and getattr(e.func, "id", "") == "len" and len(e.args) == 1 and isinstance(e.args[0], (ast.Name, ast.Attribute)):
                return unparse(e.args[0])
            return None
        one = ln(bound)
        if one:
            return [one]
        if isinstance(bound, ast.Call) and getattr(bound.func, "id", "") == "min" and bound.args and all(ln(a) for a in bound.args):
            return [ln(a) for a in bound.args]
        if isinstance(bound, ast.Name):
            # n = len(A) / min(len(A), len(B)) bound once
            defs = [n for n in self._own() if isinstance(n, ast.Assign) and len(n.targets) == 1 and isinstance(n.targets[0], ast.Name) and n.targets[0].id == bound.id]
            if len(defs) == 1:
                return self._seqs_of_bound(defs[0].value)
        return None

    def _range_to_zip(self, loop: ast.For) -> bool:
        idx = loop.target.id
        seqs = self._seqs_of_bound(loop.iter.args[0])
        if not seqs:
            return False
        seqs = list(seqs)
        # sequences asserted to have the same length as the bounding one run in lock-step with it
        for n in self._own():
            if isinstance(n, ast.Assert) and isinstance(n.test, ast.Compare) and len(n.test.ops) == 1 and isinstance(n.test.ops[0], ast.Eq) and getattr(n, "lineno", 0) < loop.lineno:
                a, b = self._seqs_of_bound(n.test.left), self._seqs_of_bound(n.test.comparators[0])
                if a and b and len(a) == 1 and len(b) == 1:
                    if a[0] in seqs and b[0] not in seqs:
                        seqs.append(b[0])
                    elif b[0] in seqs and a[0] not in seqs:
                        seqs.append(a[0])
        n_bound = len(self._seqs_of_bound(loop.iter.args[0]))
        # every use of idx in the body must be `<seq>[idx]` with seq among seqs (Load context)
        uses = [n for b in loop.body for n in ast.walk(b) if isinstance(n, ast.Name) and n.id == idx]
        if not uses:
            return False
        subs = []
        other = 0
        for u in uses:
            par = getattr(u, "_parent", None)
            if isinstance(par, ast.Subscript) and par.slice is u and unparse(par.value) in seqs and isinstance(par.ctx, ast.Load):
                subs.append(par)
            else:
                other += 1
        used_seqs = sorted({unparse(p.value) for p in subs}, key=seqs.index)
        if not subs or (len(seqs) > 1 and set(used_seqs) != set(seqs) and other == 0 and False):
            return False
        # the sequences must not be re-bound or resized in the body
        for b in loop.body:
            for n in ast.walk(b):
                if isinstance(n, ast.Call) and isinstance(n.func, ast.Attribute) and unparse(n.func.value) in seqs and n.func.attr in ("append", "extend", "pop", "remove", "insert", "clear", "sort", "reverse"):
                    return False
                if isinstance(n, (ast.Name, ast.Attribute)) and isinstance(getattr(n, "ctx", None), ast.Store) and unparse(n) in seqs:
                    return False
        if n_bound > 1 and not set(self._seqs_of_bound(loop.iter.args[0])) <= set(used_seqs):
            # the bound is the shorter of several sequences but not all are read: keep the loop
            return False
        names = {q: "%s_item" % q.split(".")[-1] for q in used_seqs}
        taken = _names(self.f.node)
        for q in list(names):
            k = 0
            while names[q] in taken:
                k += 1
                names[q] = "%s_item%d" % (q.split(".")[-1], k)
            taken.add(names[q])
        for p in subs:
            self._replace(p, ast.copy_location(ast.Name(id=names[unparse(p.value)], ctx=ast.Load()), p))
        # `x = <item>` right at the top of the body: x is the item
        set_parents(self.f.node)
        while loop.body and isinstance(loop.body[0], ast.Assign) and len(loop.body[0].targets) == 1 and isinstance(loop.body[0].targets[0], ast.Name) and isinstance(loop.body[0].value, ast.Name) and loop.body[0].value.id in names.values() and len(loop.body) > 1:
            item, alias = loop.body[0].value.id, loop.body[0].targets[0].id
            other_uses = [n for b in loop.body[1:] for n in ast.walk(b) if isinstance(n, ast.Name) and n.id == item]
            rebinds = [n for b in loop.body[1:] for n in ast.walk(b) if isinstance(n, ast.Name) and n.id == alias and isinstance(n.ctx, ast.Store)]
            if other_uses or rebinds:
                break
            for q in names:
                if names[q] == item:
                    names[q] = alias
            del loop.body[0]
        elems = [ast.Name(id=names[q], ctx=ast.Store()) for q in used_seqs]
        srcs = [ast.parse(q, mode="eval").body for q in used_seqs]
        it = srcs[0] if len(srcs) == 1 else ast.Call(func=ast.Name(id="zip", ctx=ast.Load()), args=srcs, keywords=[])
        tgt = elems[0] if len(elems) == 1 else ast.Tuple(elts=elems, ctx=ast.Store())
        if other:
            it = ast.Call(func=ast.Name(id="enumerate", ctx=ast.Load()), args=[it], keywords=[])
            tgt = ast.Tuple(elts=[ast.Name(id=idx, ctx=ast.Store()), tgt], ctx=ast.Store())
        loop.target = tgt
        loop.iter = it
        ast.fix_missing_locations(loop)
        set_parents(self.f.node)
        return True

    def _while_to_for(self, lst: List[ast.stmt], i: int) -> bool:
        """i = 0 ... while i < N: BODY; i += 1   ->   for i in range(N): BODY"""
        w = lst[i]
        if w.orelse or not (isinstance(w.test, ast.Compare) and len(w.test.ops) == 1 and isinstance(w.test.ops[0], ast.Lt) and isinstance(w.test.left, ast.Name)):
            return False
        idx = w.test.left.id
        bound = w.test.comparators[0]
        if not w.body or not (isinstance(w.body[-1], ast.AugAssign) and isinstance(w.body[-1].op, ast.Add) and isinstance(w.body[-1].target, ast.Name) and w.body[-1].target.id == idx and isinstance(w.body[-1].value, ast.Constant) and w.body[-1].value.value == 1):
            return False
        if any(isinstance(x, (ast.Break, ast.Continue)) for b in w.body for x in ast.walk(b)):
            return False
        if any(isinstance(x, ast.Name) and x.id == idx and isinstance(x.ctx, ast.Store) for b in w.body[:-1] for x in ast.walk(b)):
            return False
        init_idx = None
        for j in range(i - 1, -1, -1):
            t = lst[j]
            if isinstance(t, ast.Assign) and len(t.targets) == 1 and isinstance(t.targets[0], ast.Name) and t.targets[0].id == idx and isinstance(t.value, ast.Constant) and t.value.value == 0:
                init_idx = j
                break
            if idx in _names(t):
                return False
        if init_idx is None:
            return False
        after = set()
        for t in lst[i + 1:]:
            after |= _names(t)
        if idx in after:
            return False
        loop = ast.For(target=ast.Name(id=idx, ctx=ast.Store()), iter=ast.Call(func=ast.Name(id="range", ctx=ast.Load()), args=[bound], keywords=[]), body=w.body[:-1] or [ast.Pass()], orelse=[])
        ast.copy_location(loop, w)
        ast.fix_missing_locations(loop)
        lst[i] = loop
        del lst[init_idx]
        set_parents(self.f.node)
        return True

    # ------------------------------------------------------------------ utils
    @staticmethod
    def _live_after(names: set, rest: List[ast.stmt]) -> bool:
        """is one of ``names`` read in ``rest`` before it is bound again?"""
        pending = set(names)
        for t in rest:
            if not pending:
                return False
            mentioned = pending & _names(t)
            if not mentioned:
                continue
            for nm in list(mentioned):
                rebound_first = False
                if isinstance(t, ast.Assign) and any(nm in _names(x) for x in t.targets) and nm not in _names(t.value) and all(isinstance(x, (ast.Name, ast.Tuple, ast.List)) for x in t.targets):
                    rebound_first = True
                if isinstance(t, ast.For) and nm in _names(t.target) and nm not in _names(t.iter):
                    rebound_first = True
                if rebound_first:
                    pending.discard(nm)
                else:
                    return True
        return False

    def _replace(self, old: ast.AST, new: ast.AST) -> bool:
        for parent in ast.walk(self.f.node):
            for fld, val in ast.iter_fields(parent):
                if val is old:
                    setattr(parent, fld, new)
                    return True
                if isinstance(val, list):
                    for k, x in enumerate(val):
                        if x is old:
                            val[k] = new
                            return True
        return False

    def _remove(self, stmt: ast.stmt) -> bool:
        for parent, fld, lst in self._blocks(self.f.node):
            for k, x in enumerate(lst):
                if x is stmt:
                    if len(lst) == 1:
                        lst[k] = ast.copy_location(ast.Pass(), stmt)
                    else:
                        del lst[k]
                    return True
        return False


def canonicalise(f: Func) -> bool:
    if not isinstance(f.node, (ast.FunctionDef, ast.AsyncFunctionDef)):
        return False
    try:
        return Canon(f).run()
    except RecursionError:  # pragma: no cover
        return False


def propagate_string_constants(prog) -> int:
    """Names bound once at module level (here or in the module they are imported from) to a string literal are replaced
    by the literal in every function of the package: `x == _BALANCED` reads `x == "balanced"` to the rules.  Names that a
    function binds itself (parameters, locals, loop variables, globals it declares) are left alone."""
    from .constfold import Folder, Unfoldable

    n_repl = 0
    cache = {}

    def value_of(module, name):
        key = (module.name, name)
        if key not in cache:
            v = None
            try:
                fo = Folder(module, None, budget=200)
                fo.prog = prog
                got = fo.fold(ast.Name(id=name, ctx=ast.Load()))
                if isinstance(got, str):
                    v = got
            except (Unfoldable, RecursionError):
                v = None
            except Exception:
                v = None
            cache[key] = v
        return cache[key]

    for q, f in prog.functions.items():
        if not q.startswith(prog.package + ".") or not isinstance(f.node, (ast.FunctionDef, ast.AsyncFunctionDef)):
            continue
        bound = set(f.params) | set(f.kwonly)
        a = f.node.args
        if a.vararg:
            bound.add(a.vararg.arg)
        if a.kwarg:
            bound.add(a.kwarg.arg)
        cur = f
        while cur is not None:
            for n in own_nodes(cur.node):
                if isinstance(n, ast.Name) and isinstance(n.ctx, (ast.Store, ast.Del)):
                    bound.add(n.id)
                elif isinstance(n, (ast.Global, ast.Nonlocal)):
                    bound |= set(n.names)
                elif isinstance(n, (ast.FunctionDef, ast.AsyncFunctionDef, ast.ClassDef)):
                    bound.add(n.name)
                elif isinstance(n, ast.ExceptHandler) and n.name:
                    bound.add(n.name)
                elif isinstance(n, (ast.Import, ast.ImportFrom)):
                    bound |= {(x.asname or x.name).split(".")[0] for x in n.names}
            bound |= set(getattr(cur, "params", []))
            cur = getattr(cur, "parent", None)
        changed = False
        for n in list(own_nodes(f.node)):
            if isinstance(n, ast.Name) and isinstance(n.ctx, ast.Load) and n.id not in bound:
                v = value_of(f.module, n.id)
                if v is None:
                    continue
                par = getattr(n, "_parent", None)
                if par is None:
                    continue
                new = ast.copy_location(ast.Constant(value=v), n)
                done = False
                for fld, val in ast.iter_fields(par):
                    if val is n:
                        setattr(par, fld, new)
                        done = True
                    elif isinstance(val, list):
                        for i, x in enumerate(val):
                            if x is n:
                                val[i] = new
                                done = True
                if done:
                    changed = True
                    n_repl += 1
        if changed:
            set_parents(f.node)
    return n_repl
