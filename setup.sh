#!/bin/bash
# Nothing to build: synlint is pure Python on top of the repository's own
# interpreter (/venv/bin/python, which ships rdkit for folding SMILES literals).
set -e
cd "$(dirname "$0")"
PY=/venv/bin/python
[ -x "$PY" ] || PY=python3
"$PY" -B -c "import ast, json, gzip, re; import synlint.model, synlint.cfg, synlint.values, synlint.rows, synlint.pipeline; print('synlint ok')"
"$PY" -B -c "import rdkit; print('rdkit', rdkit.__version__)" || echo "warning: rdkit not importable; table-folding rules will report ANALYSIS-ERROR"
mkdir -p evidence out
