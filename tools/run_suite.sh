#!/bin/bash
# run the pinned test-suite of /repo (or $1) and print the summary line; expected "3 failed, 268 passed"
R=${1:-/repo}
cd "$R" && /venv/bin/python -m pytest -q -p no:cacheprovider --timeout=900 --continue-on-collection-errors -n 8 2>&1 | tail -6
