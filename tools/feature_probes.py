#!/usr/bin/env python3
"""Behaviour-preserving feature additions / refactorings applied to a scratch copy of /repo, one at a time;
every claimed check must stay silent (exit 0) on each of them.  (Author's tool; registered checks do not depend on it.)

usage: tools/feature_probes.py [name-substring ...]
"""
import sys, subprocess, shutil, os, ast
sys.path.insert(0, "/verif")
from concurrent.futures import ThreadPoolExecutor
from synlint.mutants import make_scratch, apply_edit
from synlint.cli import CLAIMED

BAL = "synrbl/balancing.py"
from synlint.variants.common import COMMON as V


def run(v):
    d = make_scratch("/repo")
    try:
        ok = apply_edit(d, v)
        res = []
        if ok:
            for e in v.get("edits", []):
                if e["file"].endswith(".py"):
                    try:
                        ast.parse(open(os.path.join(d, e["file"])).read())
                    except SyntaxError as ex:
                        return v["name"], "BROKEN PROBE: %s" % ex
            for p in CLAIMED:
                q = subprocess.run([sys.executable, "-B", "-m", "synlint.cli", p, "--repo", d, "--evidence-dir", d + "/ev"], cwd="/verif", capture_output=True, text=True)
                if q.returncode != 0:
                    res.append((p, q.returncode, [l[:260] for l in q.stdout.splitlines() if l.startswith(("FINDING", "ANALYSIS"))][:2]))
        return v["name"], ("applied: " + (repr(res) if res else "all silent")) if ok else "NOT APPLIED"
    finally:
        shutil.rmtree(d, ignore_errors=True)


if __name__ == "__main__":
    sel = [v for v in V if not sys.argv[1:] or any(a in v["name"] for a in sys.argv[1:])]
    with ThreadPoolExecutor(8) as ex:
        for name, out in ex.map(run, sel):
            print(name, "->", out)
