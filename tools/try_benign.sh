#!/bin/bash
# try_benign.sh <dir with refN/patch.diff ...> : every claimed check must stay silent (exit 0) on each behaviour-preserving patch
ALL="C01 C02 C03 C04 C05 C06 C07 C08 C09 C10 C11 C12 C13 C14 C15 C17 C18 C19 C20"
for P in "$1"/ref*/patch.diff; do
  D=$(mktemp -d /tmp/benign.XXXX)
  cp -r /repo/synrbl $D/; mkdir -p $D/Data; cp -r /repo/Data/Rules $D/Data/; cp -r /repo/Scripts /repo/Pipeline /repo/per_dataset_benchmark.py $D/ 2>/dev/null
  (cd $D && git init -q . >/dev/null 2>&1; git apply --whitespace=nowarn $P) || { echo "$P: patch does not apply"; rm -rf $D; continue; }
  echo "### $P"
  for p in $ALL; do
    out=$(cd /verif && ./check $p --repo $D --evidence-dir $D/ev 2>&1); rc=$?
    if [ $rc -ne 0 ]; then echo "  $p rc=$rc"; echo "$out" | grep -E "^FINDING|ANALYSIS-ERROR" | cut -c1-300 | sed 's/^/    /'; fi
  done
  rm -rf $D
done
