#!/usr/bin/env python3
"""Regenerate /verif/MANIFEST.json from the table below (keeps it valid)."""
import json
import os
import sys

HERE = os.path.dirname(os.path.dirname(os.path.abspath(__file__)))
sys.path.insert(0, HERE)

# id -> (technique, level text, level note (n/a part), design ref)
CHECKS = {}


def _level_text(pid, base):
    """design-time summary + the clause list the checker itself prints into the evidence (kept in one place: the module)"""
    import importlib

    mod = importlib.import_module("synlint.props.%s" % pid.lower())
    return base + " || Clauses decided by the check as built: " + mod.EXPLANATION


def add(pid, technique, text, note, ref):
    CHECKS[pid] = dict(technique=technique, text=text, note=note, ref=ref)


add(
    "C01",
    "who-may-write + guard-set dominance over resolved row stores; stage-sequence (validated-write) rule on Balancer.__run_pipeline",
    "Static: every store to the solved column is resolved (column keys propagated through the stage constructors) and must be the "
    "constant False or be dominated by the comparator's Balance verdict and the carbon label; the validator must refresh the side "
    "strings from its own reaction column before decomposing; every stage that rewrites the reaction of rows selected because they "
    "are solved must be followed by a fresh-verdict revert/demotion; the comparator returns Balance only under key-set and value "
    "equality; element keys are injective. Decides the structural chain, not RDKit's counts.",
    "Not decided: that RDKit's atom/charge counts equal the true composition (C07 behavioural part). Trusted: ast, synlint resolver/evaluator.",
    "DESIGN.md 3/C01",
)
add(
    "C02",
    "may-taint of input-carrying SMILES text + classification of string operations (append / component / substring edit); single-writer rule",
    "Static: classifies every string operation applied to text that carries the user's molecules on the pipeline path; only append "
    "forms and whole-component list filters are allowed, substring edits (replace/re.sub/slicing/strip) on joined side strings are "
    "violations; input_reaction has exactly one writer, a copy of the reaction column taken right after atom-map removal; "
    "standardisers are applied to the merged fragment only.",
    "Not decided: that RDKit-built merged fragments are whole molecules in the chemical sense (C09). May-taint is intra-package.",
    "DESIGN.md 3/C02",
)
add(
    "C03",
    "post-dominance / ordering over the resolved stage sequence; constant binding of flags; must-not-reach in impute_reaction",
    "Static: after the last stage that may write the reaction column of an unsolved row there is a validator call with "
    "override_unsolved bound to True whose effect is `not solved => reaction := input_reaction`, and no reaction writer follows; "
    "every unsolved row gets a non-empty issue (MCS search seeds it, the final validator fills empty ones with a non-empty constant, "
    "the confidence filter formats one); the three method literals are distinct and are the only values written to solved_by; "
    "reactant-side carbon deficit raises before a result is returned.",
    "Not decided: non-emptiness of foreign exception texts (made irrelevant by the final override message).",
    "DESIGN.md 3/C03",
)
add(
    "C04",
    "ordering + per-writer guard idiom table over resolved reaction-column stores",
    "Static: the first stage after preprocess is the validator bound to 'input-balanced' and it runs exactly once before any "
    "completion stage; every reaction-column writer reachable from the pipeline is guarded against rows solved by the input check "
    "(not solved / solved_by != input-balanced / fresh non-Balance label / MCS key that is only set under not solved).",
    "Not decided: that the tool's balance verdict coincides with an independent one (C07 behaviour).",
    "DESIGN.md 3/C04",
)
add(
    "C05",
    "row-container operation classifier (mask filter, dropna, drop_duplicates, sort, filtering comprehension) + may-raise of per-row predicates + handler effects on the path rebalance -> data_splitter",
    "Static: no row-dropping or row-reordering construct and no row-losing exception path between rebalance()'s input and output; "
    "results are accumulated in loader order. The three defects the property names are confirmed genuine and listed as known "
    "findings (not small to repair); any other dropping construct is a violation.",
    "Trusted: pandas semantics of boolean-mask indexing/drop_duplicates/reset_index as classified.",
    "DESIGN.md 3/C05",
)
add(
    "C06",
    "structural rules: ordered parallel maps, positional-id provenance, positional joins, no cross-row module/class state, additive int statistics",
    "Static: every joblib.Parallel whose result is consumed positionally returns in submission order; ids converted to list "
    "positions were assigned from the positional index of the same list with no row-count-changing operation in between; id->index "
    "maps are built from and applied to the same list; no pipeline-reachable function mutates module/class level containers except "
    "the lazy-constant idiom; statistics are int counts written once per batch.",
    "Not decided: determinism of RDKit/joblib/xgboost and process-pool scheduling.",
    "DESIGN.md 3/C06",
)
add(
    "C07",
    "table injectivity over Z=1..118, def-use chain AddHs(MolFromSmiles(param)), producer/consumer label-set agreement",
    "Static: element labelling in decompose is injective over Z=1..118; counted atoms are those of AddHs(parsed molecule); net "
    "charge is GetFormalCharge stored under the key all consumers use; every label literal a consumer compares with is produced.",
    "Not decided (n/a): exact counts, additivity over mixtures, comparator verdict over all composition pairs - they quantify over RDKit results.",
    "DESIGN.md 3/C07",
)
add(
    "C08",
    "exhaustive constant folding of both shipped rule databases (RDKit as constant folder) + dominance of the publish sites by the exit predicate + ban-list x database agreement",
    "Static/exhaustive over closed tables: every record's Composition (with explicit Q) equals the folded composition of its SMILES "
    "literal; the matcher publishes a completion only under the zero-remainder predicate and subtracts every key of the rule; every "
    "dihalogen/interhalogen record is matched by the product ban list; appended text comes from the solution's records with the "
    "guarded ratio.",
    "Not decided: completeness/arithmetics of the depth-first search for all vectors (needs evaluation).",
    "DESIGN.md 3/C08",
)
add(
    "C09",
    "must-pass-through on rule apply methods, constructor-signature x JSON table agreement (exhaustive), call-graph no-atom-deletion, paired hydrogen fixing",
    "Static: every applied merge/expand/compound rule appends itself to the returned compound's rules on every normal path; the three "
    "rule tables only use parameters, action types, bond names and functional-group names the interpreting code accepts; expansion "
    "compounds are carbon-free with a valid index; no function on the merge path deletes atoms; hydrogen fixing is applied to both "
    "boundary atoms before the merge.",
    "Not decided (n/a): cut/merge round trip, valences and heavy-atom equality over all molecules (RDKit computations).",
    "DESIGN.md 3/C09",
)
add(
    "C10",
    "def-use of the write-back index and of table subscripts; publish guard",
    "Static: results are written back through an id->index map built from the same list in the same call using the id carried by "
    "the result; the selection among conditions indexes every table with the loop's row index and returns elements of the input "
    "tables; results are published only when the sorted list covers the searched side; the parallel map is ordered.",
    "Not decided (n/a): containment of a substructure in its molecule and maximality among conditions (RDKit results).",
    "DESIGN.md 3/C10",
)
add(
    "C11",
    "handler coverage of fallible calls in the per-row jobs, handler effects, must-raise-before-build in impute_reaction",
    "Static: in each per-row job of the MCS stage every call into analysis code and every AsyncResult.get(timeout) lies in a try whose "
    "handlers cover Exception / TimeoutError without re-raising and record a non-empty issue on that row only; a recorded issue makes "
    "impute_reaction raise before building compounds; the stage never removes rows.",
    "Not decided (n/a): equality of unaffected rows under wall-clock races.",
    "DESIGN.md 3/C11",
)
add(
    "C12",
    "attribute-to-hash flow (cache-key completeness) + file-effect pairing (atomic write or tolerant load)",
    "Static: every caller-settable Balancer attribute that is read in the region a cache hit bypasses flows into the hashed "
    "payload; every cache entry is written atomically (temp name + os.replace) or every load treats undecodable content as a miss.",
    "Not decided: JSON round-trip fidelity of cached rows.",
    "DESIGN.md 3/C12",
)
add(
    "C13",
    "normalised comparison, taint of the threshold parameter, store-target scope",
    "Static: the keep-solved branch is `confidence >= threshold`; the threshold flows only into that comparison and the issue text; "
    "all stores of predict go to rows filtered by solved_by == the MCS method literal; demotion stores False and a formatted issue; "
    "confidence_threshold has a single consumer in the pipeline.",
    "Not decided: confidence in [0,1] (xgboost output).",
    "DESIGN.md 3/C13",
)
add(
    "C14",
    "provenance of solver arguments + classification of predicates over joined side strings",
    "Static: the rule matcher's inputs derive only from the difference formula and the rule table; no substring/regex predicate over a "
    "joined side string that carries input molecules gates a write on the rule-based path (whole-component tests are allowed).",
    "Not decided: that RDKit parses equivalent spellings to the same composition.",
    "DESIGN.md 3/C14",
)
add(
    "C15",
    "regex-language analysis (re._parser) against the element valence table; applied-first dominance; map-free literal tables",
    "Static/exhaustive over the finite regex language: brackets are dropped only for atoms whose implicit-valence reading is "
    "unambiguous; the map pattern is restricted to bracket context; atom-map removal dominates every read of the reaction column; no "
    "literal that can be added to a reaction carries a map number.",
    "Trusted: SMILES implicit-valence rule (smallest allowed valence) and RDKit's valence list.",
    "DESIGN.md 3/C15",
)
add(
    "C17",
    "sort-key injectivity rule + guard/dominance of the short-circuit return",
    "Static: the sort that defines the normal form orders by a key whose last component is the element itself (total order on the "
    "multiset); `return 1` in wc_similarity is guarded by equality of the two normal forms and precedes any fingerprint code.",
    "Not decided (n/a): idempotence/spelling invariance of RDKit canonicalisation, symmetry/range of similarities.",
    "DESIGN.md 3/C17",
)
add(
    "C18",
    "per-stage statistic-store summary over the resolved stage sequence; writer/reader key agreement; counter guard placement",
    "Static: each statistic key has exactly one writing stage call per pipeline run (the second rule-based run must not receive the "
    "stats object); every key the CLI/benchmark reads is written on every path; counters sit on the label decision they count.",
    "Not decided: data-dependent numeric equalities.",
    "DESIGN.md 3/C18",
)
add(
    "C19",
    "dominance of the single mutation by the three raising rejections; closed mutator set; record provenance; exhaustive uniqueness of shipped tables",
    "Static: add_entry's only mutation of the database is dominated by the duplicate-formula, duplicate-SMILES and invalid-SMILES "
    "rejections; only add_entry/remove_entry mutate it; the appended record is built from the parameters and decompose(smiles) with "
    "explicit Q; bulk add catches exactly the rejection type; shipped databases are checked exhaustively for duplicate formula/SMILES.",
    "Not decided: correctness of decompose (C07).",
    "DESIGN.md 3/C19",
)
add(
    "C20",
    "return-kind analysis (error text in SMILES-typed result), loop-carried stale-index rule, index-arithmetic adjacency rule",
    "Static: a SMILES-returning function never returns an error string; a rewrite loop does not reuse atom indices computed for a "
    "previous SMILES; adjacency is never inferred from index arithmetic.",
    "Not decided (n/a): conservation/idempotence where none of the three constructs triggers.",
    "DESIGN.md 3/C20",
)

NOT_APPLICABLE = {
    "C16": "Quantifies over all molecules and atom renumberings of a hand-written recursive matcher against a reference matcher; the only "
    "structural handle (indices used for identity only) is a sufficient style condition, not a necessary one - a behaviour-preserving "
    "edit would trip it and an index-free but wrong matcher would pass it. No sound static clause in reach (DESIGN.md 3/C16).",
}


def main():
    from synlint.cli import CLAIMED

    have = {p for p in CLAIMED if os.path.exists(os.path.join(HERE, "synlint", "props", p.lower() + ".py"))}
    checks = []
    for pid in sorted(CHECKS):
        if pid not in have:
            continue
        c = CHECKS[pid]
        checks.append(
            {
                "property_id": pid,
                "quick_cmd": "./check %s --tier quick" % pid,
                "thorough_cmd": "./check %s --tier thorough" % pid,
                "evidence_file": "evidence/%s.json" % pid,
                "replay_cmd_template": "./check %s --replay {path}" % pid,
                "engine": "synlint",
                "technique": "static analysis: " + c["technique"],
                "level_claimed": {"category": "other", "text": _level_text(pid, c["text"]), "design_ref": c["ref"] + "; rules as built: DESIGN.md 7.4, 7.4b"},
                "level_note": c["note"],
            }
        )
    na = [{"property_id": k, "reason": v} for k, v in sorted(NOT_APPLICABLE.items())]
    for pid in sorted(CHECKS):
        if pid not in have:
            na.append({"property_id": pid, "reason": "check designed (DESIGN.md) but not yet built in this session; not claimed until it exists"})
    manifest = {
        "version": 1,
        "setup_cmd": "./setup.sh",
        "hooks": {
            "guard": "SYNRBL_VERIF",
            "enable": "none needed: static analysis reads /repo's working tree; no instrumentation exists in /repo",
            "baseline_off_cmd": "cd /repo && /venv/bin/python -m pytest -ra -q -p no:cacheprovider --timeout=900 --continue-on-collection-errors",
            "source_commits": [],
            "add_only": True,
        },
        "engines": [
            {
                "name": "synlint",
                "path": "synlint/",
                "serves_properties": sorted(have),
                "kind_free_text": "repository-specific static analyser: ast program model + callee resolver, column-key constant "
                "propagation through stage constructors, statement CFG with dominators/guard sets, row-store effects, SMILES-text "
                "provenance, re._parser regex languages, exhaustive folding of shipped JSON tables (RDKit as constant folder only)",
            }
        ],
        "checks": checks,
        "not_applicable": na,
        "notes": "All checks are static (no SynRBL code is imported or executed). exit 0 ok / 1 VIOLATION / 2 ANALYSIS-ERROR. "
        "thorough = quick + mutation self-test of the rules on scratch copies + wider scope. Known findings: known_findings.json.",
    }
    with open(os.path.join(HERE, "MANIFEST.json"), "w") as fh:
        json.dump(manifest, fh, indent=1)
        fh.write("\n")
    print("MANIFEST.json: %d checks, %d not applicable" % (len(checks), len(na)))


if __name__ == "__main__":
    main()
