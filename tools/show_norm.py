#!/usr/bin/env python3
"""show_norm.py <repo> <qualname> [patch] : print a function as the rules see it (after inlining and canonicalisation)"""
import sys, ast, os, subprocess, tempfile, shutil
sys.path.insert(0, '/verif')
from synlint.report import Ctx
repo, qn = sys.argv[1], sys.argv[2]
tmp = None
if len(sys.argv) > 3:
    tmp = tempfile.mkdtemp(prefix='/tmp/shownorm.')
    for d in ('synrbl', 'Scripts', 'Pipeline', 'per_dataset_benchmark.py'):
        s = os.path.join(repo, d)
        if os.path.isdir(s): shutil.copytree(s, os.path.join(tmp, d))
        elif os.path.exists(s): shutil.copy(s, tmp)
    os.makedirs(os.path.join(tmp, 'Data')); shutil.copytree(os.path.join(repo, 'Data/Rules'), os.path.join(tmp, 'Data/Rules'))
    subprocess.run('git init -q . && git apply --whitespace=nowarn %s' % sys.argv[3], shell=True, cwd=tmp, check=True)
    repo = tmp
try:
    ctx = Ctx(repo, 'C01')
    print(ast.unparse(ctx.prog.func(qn).node))
finally:
    if tmp: shutil.rmtree(tmp)
