#!/bin/bash
# try_seed.sh <patch.diff> [props...] : apply the patch to a scratch copy of /repo and run the checks on it
P=$1; shift
D=$(mktemp -d /tmp/seedtry.XXXX)
cp -r /repo/synrbl $D/; mkdir -p $D/Data; cp -r /repo/Data/Rules $D/Data/; cp -r /repo/Scripts /repo/Pipeline /repo/per_dataset_benchmark.py $D/ 2>/dev/null
(cd $D && git init -q . >/dev/null 2>&1; git apply --whitespace=nowarn $P) || { echo "patch does not apply"; rm -rf $D; exit 3; }
for p in "$@"; do
  out=$(cd /verif && ./check $p --repo $D --evidence-dir $D/ev 2>&1)
  rc=$?
  echo "== $p rc=$rc"; echo "$out" | grep -E "^FINDING|ANALYSIS-ERROR" | cut -c1-260
done
rm -rf $D
