#!/usr/bin/env python3
"""keep_seed.py <prop> <n> <src dir> <verified-line> : copy a verified seed into /verif/seeded/<prop>-<n>/"""
import json, os, shutil, sys
prop, n, src, verified = sys.argv[1:5]
dst = "/verif/seeded/%s-%s" % (prop, n)
os.makedirs(dst, exist_ok=True)
shutil.copy(os.path.join(src, "patch.diff"), dst)
shutil.copy(os.path.join(src, "demo.py"), dst)
meta = {}
try:
    meta = json.load(open(os.path.join(src, "meta.json")))
except Exception as e:
    meta = {"note": "author meta.json unreadable: %s" % e}
meta["property"] = prop
meta["origin"] = "independent sub-agent given only the property text and a scratch worktree"
meta["confirmed_by_me"] = verified
json.dump(meta, open(os.path.join(dst, "meta.json"), "w"), indent=1)
print(dst)
