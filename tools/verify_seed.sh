#!/bin/bash
# verify_seed.sh <seed dir containing patch.diff + demo.py> [--suite]
# Confirms in a fresh scratch worktree of /repo: demo passes without the patch, fails with it, suite unchanged.
S=$(readlink -f $1); SUITE=$2
W=$(mktemp -d /tmp/vs.XXXX); rmdir $W
git -C /repo worktree add -q --detach $W HEAD || exit 9
cd $W
PYTHONPATH=$W timeout 900 /venv/bin/python $S/demo.py > $W/.demo_clean.log 2>&1; RC0=$?
git apply --whitespace=nowarn $S/patch.diff || { echo "APPLY-FAILED"; cd /; git -C /repo worktree remove --force $W; exit 8; }
PYTHONPATH=$W timeout 900 /venv/bin/python $S/demo.py > $W/.demo_patched.log 2>&1; RC1=$?
SUITE_RES="skipped"
if [ "$SUITE" = "--suite" ]; then
  SUITE_RES=$(PYTHONPATH=$W /venv/bin/python -m pytest -q -p no:cacheprovider --timeout=900 -n 6 2>&1 | tail -1)
fi
echo "demo_clean_rc=$RC0 demo_patched_rc=$RC1 suite=[$SUITE_RES] files=$(git diff --name-only | tr '\n' ' ')"
tail -2 $W/.demo_patched.log | cut -c1-200
cd /; git -C /repo worktree remove --force $W
