#!/usr/bin/env python3
"""Apply every /verif/seeded/*/patch.diff to a scratch copy of /repo, run all checks, write seeded/RESULTS.json + RESULTS.md.
(Convenience for the author; the registered checks never depend on it.)"""
import json, os, shutil, subprocess, sys, tempfile
from concurrent.futures import ThreadPoolExecutor
sys.path.insert(0, "/verif")
from synlint.cli import CLAIMED
from synlint.mutants import make_scratch

def run_seed(sd):
    name = os.path.basename(sd)
    d = make_scratch("/repo")
    try:
        subprocess.run(["git", "init", "-q", "."], cwd=d, capture_output=True)
        p = subprocess.run(["git", "apply", "--whitespace=nowarn", os.path.join(sd, "patch.diff")], cwd=d, capture_output=True, text=True)
        if p.returncode != 0:
            return name, {"error": "patch does not apply: " + p.stderr[:200]}
        res = {}
        for prop in CLAIMED:
            ev = tempfile.mkdtemp(prefix="ev-", dir="/tmp")
            q = subprocess.run([sys.executable, "-B", "-m", "synlint.cli", prop, "--repo", d, "--evidence-dir", ev, "--json"], cwd="/verif", capture_output=True, text=True)
            shutil.rmtree(ev, ignore_errors=True)
            f = []
            for line in q.stdout.splitlines():
                if line.startswith("{"):
                    f = json.loads(line)["findings"]
            known = {(k["rule"], k["construct"]) for k in json.load(open("/verif/known_findings.json"))["findings"] if k["status"] == "known"}
            new = [x for x in f if (x["rule"], x["construct"]) not in known]
            res[prop] = {"rc": q.returncode, "findings": ["%s %s" % (x["rule"], x["construct"]) for x in new], "error": q.stdout.strip().splitlines()[-1][:200] if q.returncode == 2 else ""}
        return name, res
    finally:
        shutil.rmtree(d, ignore_errors=True)

seeds = sorted(os.path.join("/verif/seeded", x) for x in os.listdir("/verif/seeded") if os.path.isdir(os.path.join("/verif/seeded", x)))
if len(sys.argv) > 1:
    seeds = [s for s in seeds if os.path.basename(s) in sys.argv[1:]]
with ThreadPoolExecutor(8) as ex:
    results = dict(ex.map(run_seed, seeds))
path = "/verif/seeded/RESULTS.json"
old = json.load(open(path)) if os.path.exists(path) else {}
old.update(results)
json.dump(old, open(path, "w"), indent=1, sort_keys=True)
lines = ["# Seeded changes vs. checks", "", "| seed | own property check | caught by (rule construct) | analysis refused (exit 2) |", "|---|---|---|---|"]
for name in sorted(old):
    r = old[name]
    if "error" in r:
        lines.append("| %s | - | %s | |" % (name, r["error"])); continue
    own = name.split("-")[0]
    caught = ["%s: %s" % (p, "; ".join(v["findings"][:2])) for p, v in sorted(r.items()) if v["rc"] == 1]
    refused = [p for p, v in sorted(r.items()) if v["rc"] == 2]
    ownres = {0: "silent", 1: "VIOLATION", 2: "ANALYSIS-ERROR"}.get(r.get(own, {}).get("rc"), "?")
    lines.append("| %s | %s | %s | %s |" % (name, ownres, "<br>".join(caught) or "**missed**", ", ".join(refused)))
open("/verif/seeded/RESULTS.md", "w").write("\n".join(lines) + "\n")
print("\n".join(lines))
